#![no_main]
use libfuzzer_sys::fuzz_target;

fuzz_target!(|data: &[u8]| {
    pfv::fuzzglue::gen_all(data);
});
