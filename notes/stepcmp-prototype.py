import sys, json, pickletools, collections
MARK='MARK'
PUSH={'INT':'Int','BININT':'Int','BININT1':'Int','BININT2':'Int','LONG':'Int','LONG1':'Int','LONG4':'Int','STRING':'Any','BINSTRING':'Any','SHORT_BINSTRING':'Any',
 'BINBYTES':'Bytes','SHORT_BINBYTES':'Bytes','BINBYTES8':'Bytes','BYTEARRAY8':'ByteArray','NEXT_BUFFER':'Buffer','NONE':'None','NEWTRUE':'Bool','NEWFALSE':'Bool',
 'UNICODE':'Str','SHORT_BINUNICODE':'Str','BINUNICODE':'Str','BINUNICODE8':'Str','FLOAT':'Float','BINFLOAT':'Float','EMPTY_LIST':'List','EMPTY_TUPLE':'Tuple',
 'EMPTY_DICT':'Dict','EMPTY_SET':'Set','GLOBAL':'Callable','PERSID':'Any','EXT1':'Any','EXT2':'Any','EXT4':'Any','MARK':MARK}
OK={'Int':{0,2},'Bool':{0,2},'Float':{1},'None':{3},'Bytes':{4},'Buffer':{4},'Str':{5},'ByteArray':{6},'List':{7},'Tuple':{8},'Dict':{9},'Set':{10},'FrozenSet':{11},'Callable':{13,15},'Instance':{14}}
def compat(tag, ref):
    if ref==MARK: return tag==12
    if tag==12: return False
    if ref=='Any': return True
    return tag in OK[ref]
def topmark(st):
    for i in range(len(st)-1,-1,-1):
        if st[i]==MARK: return i
    raise Exception('no MARK')
def step(st, memo, n, arg):
    if n in PUSH: st.append(PUSH[n])
    elif n in('PROTO','FRAME'): pass
    elif n=='STOP': st.pop()
    elif n=='POP': st.pop()
    elif n=='DUP': st.append(st[-1])
    elif n=='POP_MARK': del st[topmark(st):]
    elif n in('PUT','BINPUT','LONG_BINPUT','MEMOIZE'):
        k=len(memo) if n=='MEMOIZE' else int(arg); memo[k]=st[-1]
    elif n in('GET','BINGET','LONG_BINGET'): st.append(memo[int(arg)])
    elif n=='APPEND': st.pop()
    elif n in('APPENDS','SETITEMS','ADDITEMS'): del st[topmark(st):]
    elif n=='SETITEM': del st[-2:]
    elif n in('TUPLE','LIST','FROZENSET','DICT'):
        del st[topmark(st):]; st.append({'TUPLE':'Tuple','LIST':'List','FROZENSET':'FrozenSet','DICT':'Dict'}[n])
    elif n in('TUPLE1','TUPLE2','TUPLE3'): del st[-int(n[-1]):]; st.append('Tuple')
    elif n=='STACK_GLOBAL': del st[-2:]; st.append('Callable')
    elif n in('REDUCE','NEWOBJ'): del st[-2:]; st.append('Instance')
    elif n=='NEWOBJ_EX': del st[-3:]; st.append('Instance')
    elif n=='BUILD': st.pop()
    elif n in('INST','OBJ'): del st[topmark(st):]; st.append('Instance')
    elif n=='BINPERSID': st.pop(); st.append('Any')
    elif n=='READONLY_BUFFER':
        x=st.pop(); st.append('Any' if x==MARK else x)
    else: raise Exception('unknown '+n)
bad=collections.Counter(); ex={}; n=0; nsteps=0
for line in open(sys.argv[1]):
    r=json.loads(line); data=bytes.fromhex(r['hex']); n+=1
    ops=list(pickletools.genops(data)); i=0; st=[]; memo={}
    try:
        for (phase,out_len,stack,mk) in r['steps']:
            cnt=0
            while i<len(ops) and ops[i][2]<out_len:
                op,arg,pos=ops[i]; step(st,memo,op.name,arg); i+=1
                if op.name not in('PROTO','FRAME'): cnt+=1
            nsteps+=1
            if cnt!=1: raise Exception(f'step has {cnt} opcodes')
            nxt = ops[i][2] if i<len(ops) else len(data)
            if nxt!=out_len: raise Exception('offset mismatch')
            if len(st)!=len(stack): raise Exception(f'depth {len(st)} vs {len(stack)} after {ops[i-1][0].name}')
            for a,b in zip(stack,st):
                if not compat(a,b): raise Exception(f'kind {a} vs {b} after {ops[i-1][0].name}')
            if sorted(memo.keys())!=mk: raise Exception('memo keys')
    except Exception as e:
        k=str(e); bad[k]+=1; ex.setdefault(k,(r['p'],r['seed']))
print(n,'pickles',nsteps,'steps; mismatches:',sum(bad.values()))
for k,v in bad.most_common(): print(v,k,ex[k])
