import random, subprocess, os, sys, filecmp
PF='/tmp/scratch/pf/target/release/pickle-fuzzer'; LG='/tmp/scratch/pf/target/release/examples/libgen'
random.seed(5); names=['bitflip','boundary','offbyone','stringlen','character','memoindex','typeconfusion']
mism=0; n=0; amb=0
for it in range(400):
    proto=random.choice(['-',0,1,2,3,4,5]); seed=random.randrange(0,2**40)
    mn=random.choice([0,3,10,60]); mx=random.choice([0,5,20,120,300])
    rate=random.choice(['0','1','0.5','0.1','2.5','0.999']); uns=random.random()<0.4; ext=random.random()<0.5; buf=random.random()<0.5
    r=random.random()
    muts = '-' if r<0.2 else ('all' if r<0.4 else ','.join(random.sample(names, random.randint(1,4))))
    args=[PF,'--seed',str(seed),'--min-opcodes',str(mn),'--max-opcodes',str(mx)]
    if proto!='-': args+=['--protocol',str(proto)]
    if muts!='-': args+=['--mutators']+muts.split(',')
    args+=['--mutation-rate',rate]
    if uns: args.append('--unsafe-mutations')
    if ext: args.append('--allow-ext')
    if buf: args.append('--allow-buffer')
    args.append('/tmp/scratch/c.pkl')
    subprocess.run(args,check=True,stdout=subprocess.DEVNULL)
    subprocess.run([LG,str(proto),str(seed),str(mn),str(mx),rate,'1' if uns else '0','1' if ext else '0','1' if buf else '0',muts,'/tmp/scratch/l.pkl'],check=True)
    n+=1
    if not filecmp.cmp('/tmp/scratch/c.pkl','/tmp/scratch/l.pkl',shallow=False):
        if muts=='-' and uns: amb+=1
        else:
            mism+=1; print('MISMATCH',args)
print(n,'cases',mism,'mismatches',amb,'ambiguous-corner diffs')
