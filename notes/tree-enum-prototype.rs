use pickle_fuzzer::{Generator, Version, verif};
use std::collections::{HashMap, HashSet};
fn run(p: usize, script: &[usize], ext: bool) -> (Vec<u8>, verif::Trace) {
    let d = script.len();
    let mut g = Generator::new(Version::try_from(p).unwrap()).with_opcode_range(d, d).with_ext_opcodes(ext).with_buffer_opcodes(ext);
    verif::start(script.to_vec());
    let out = g.generate_from_arbitrary(&[]).unwrap();
    (out, verif::take())
}
fn main() {
    let a: Vec<String> = std::env::args().collect();
    let p: usize = a[1].parse().unwrap();
    let maxd: usize = a[2].parse().unwrap();
    let t0 = std::time::Instant::now();
    // state key: (stack kinds, memo keys->can't know kinds; use memo len) ; frontier: script per state
    let mut seen: HashSet<(Vec<u8>, usize)> = HashSet::new();
    let mut frontier: Vec<Vec<usize>> = vec![vec![]];
    seen.insert((vec![], 0));
    let mut runs = 0u64;
    let mut opseen: HashMap<u8, usize> = HashMap::new();
    for depth in 0..maxd {
        let mut next = Vec::new();
        for script in &frontier {
            // learn valid count by running script + [0]
            let mut s = script.clone(); s.push(0);
            let (_o, tr) = run(p, &s, false); runs += 1;
            let nvalid = tr.steps.iter().filter(|x| x.phase == 1).last().map(|x| x.valid.len()).unwrap_or(0);
            for i in 0..nvalid {
                let mut s = script.clone(); s.push(i);
                let (_o, tr) = run(p, &s, false); runs += 1;
                let st = tr.steps.iter().filter(|x| x.phase == 1).last().unwrap();
                *opseen.entry(st.chosen).or_default() += 1;
                let key = (st.stack.clone(), st.memo.len());
                if seen.insert(key) { next.push(s); }
            }
        }
        println!("p{} depth {} new states {} total {} runs {} ops-seen {} t={:?}", p, depth + 1, next.len(), seen.len(), runs, opseen.len(), t0.elapsed());
        frontier = next;
    }
}
