// reference mapping: args: protocol|- seed min max rate unsafe ext buf mutators(comma list or 'all' or '-') outfile
use pickle_fuzzer::{Generator, Version, MutatorKind, Mutator};
fn main() {
    let a: Vec<String> = std::env::args().collect();
    let seed: u64 = a[2].parse().unwrap();
    let proto: usize = if a[1] == "-" { (seed % 6) as usize } else { a[1].parse().unwrap() };
    let (min, max): (usize, usize) = (a[3].parse().unwrap(), a[4].parse().unwrap());
    let rate: f64 = a[5].parse().unwrap();
    let (uns, ext, buf) = (a[6] == "1", a[7] == "1", a[8] == "1");
    let kinds: Vec<MutatorKind> = match a[9].as_str() {
        "-" => vec![],
        "all" => { let mut v = vec![MutatorKind::Bitflip, MutatorKind::Boundary, MutatorKind::Offbyone, MutatorKind::Stringlen, MutatorKind::Character, MutatorKind::Typeconfusion]; if uns { v.push(MutatorKind::Memoindex); } v }
        s => s.split(',').map(|m| match m { "bitflip" => MutatorKind::Bitflip, "boundary" => MutatorKind::Boundary, "offbyone" => MutatorKind::Offbyone, "stringlen" => MutatorKind::Stringlen, "character" => MutatorKind::Character, "memoindex" => MutatorKind::Memoindex, "typeconfusion" => MutatorKind::Typeconfusion, _ => panic!() }).collect(),
    };
    let muts: Vec<Box<dyn Mutator>> = kinds.iter().map(|k| k.create(uns)).collect();
    let mut g = Generator::new(Version::try_from(proto).unwrap()).with_seed(seed).with_opcode_range(min, max)
        .with_mutators(muts).with_mutation_rate(rate).with_unsafe_mutations(uns).with_ext_opcodes(ext).with_buffer_opcodes(buf);
    std::fs::write(&a[10], g.generate().unwrap()).unwrap();
}
