use pickle_fuzzer::{Generator, Version, verif};
use std::hash::{Hash, Hasher};
fn main() {
    let mut h = std::collections::hash_map::DefaultHasher::new();
    let mut bad = 0; let mut maxratio = 0.0f64; let mut n = 0; let mut zero_len_steps = 0;
    for p in 0..6usize { for seed in 0..3000u64 {
        let (min, max) = (0usize, 400usize);
        let mut g = Generator::new(Version::try_from(p).unwrap()).with_seed(seed).with_opcode_range(min, max);
        verif::start(vec![]);
        let o = g.generate().unwrap();
        let t = verif::take();
        o.hash(&mut h);
        n += 1;
        let body = t.steps.iter().filter(|s| s.phase == 1).count();
        let tail = t.steps.iter().filter(|s| s.phase == 2).count();
        let stop = t.steps.iter().filter(|s| s.phase == 3).count();
        if body != t.target || stop != 1 || t.target < min || t.target >= max { bad += 1; }
        if t.target > 0 { maxratio = maxratio.max(tail as f64 / t.target as f64); }
        let mut prev = None;
        for s in &t.steps { if let Some(pv) = prev { if s.out_len <= pv { zero_len_steps += 1; } } prev = Some(s.out_len); }
        if t.steps.last().unwrap().out_len != o.len() { bad += 1; }
    }}
    println!("digest {:x} n {} bad {} max tail/T {:.3} nonincreasing {}", h.finish(), n, bad, maxratio, zero_len_steps);
}
