#!/usr/bin/env python3
"""Re-run every kept sub-agent seed against the CURRENT harness (tools/par_mutant.sh, scratch worktrees /tmp/pm-N,
/repo untouched) with the check recorded as catching it; prints the seeds that are no longer reported.
usage: regress_seeds.py [slots=5] [substring ...]"""
import json, os, re, subprocess, sys, threading, queue, time

slots = int(sys.argv[1]) if len(sys.argv) > 1 and sys.argv[1].isdigit() else 5
subs = [a for a in sys.argv[1:] if not a.isdigit()]
jobs = queue.Queue()
for d in sorted(os.listdir("/verif/seeded")):
    if not re.fullmatch(r"C\d\d-[a-p]", d):
        continue
    if subs and not any(s in d for s in subs):
        continue
    m = json.load(open(f"/verif/seeded/{d}/meta.json"))
    if "residual" in m:
        continue
    caught = [k for k, v in m["results"].items() if str(v.get("verdict", "")).startswith("caught")]
    own = d[:3]
    if not caught:
        print("NO-CATCH-RECORDED", d)
        continue
    check = own if own in caught else caught[0]
    jobs.put((d, check))
total = jobs.qsize()
lock = threading.Lock()
res = {}

def worker(slot):
    while True:
        try:
            d, check = jobs.get_nowait()
        except queue.Empty:
            return
        t0 = time.time()
        env = dict(os.environ, SKIP_BASELINE="1")
        r = subprocess.run(["/verif/tools/par_mutant.sh", str(slot), f"/verif/seeded/{d}/patch.diff", "quick", check], capture_output=True, text=True, env=env)
        m = re.search(rf"^{check} exit=(\d+)", r.stdout, re.M)
        code = int(m.group(1)) if m else -1
        with lock:
            res[d] = (check, code, r.stdout.strip().splitlines()[-2:] if code != 1 else "")
            print(f"[{len(res)}/{total}] {d} {check} exit={code} {time.time()-t0:.0f}s", flush=True)

ts = [threading.Thread(target=worker, args=(i,)) for i in range(slots)]
[t.start() for t in ts]
[t.join() for t in ts]
bad = {d: v for d, v in res.items() if v[1] != 1}
print("SUMMARY: %d seeds re-run, %d reported, %d not reported" % (len(res), len(res) - len(bad), len(bad)))
for d, v in sorted(bad.items()):
    print("NOT-REPORTED", d, v)
json.dump({d: {"check": v[0], "exit": v[1]} for d, v in res.items()}, open("/verif/seeded/REGRESSION.json", "w"), indent=1, sort_keys=True)
