#!/usr/bin/env python3
"""Generate /verif/MANIFEST.json from the table below (keeps the 18 entries uniform)."""
import json, os, subprocess

HERE = os.path.dirname(os.path.dirname(os.path.abspath(__file__)))

CHECKS = {
 "C01": ("generated-input search (proptest, 16 workers) + bounded decision-tree enumeration, name-table and boundary-word sweeps, 66 000-high scripted programs; oracle: independent flat-stack reference machine, CPython pickletools.dis on a sample",
         "Every safe-mode output explored is replayed through an independent pickletools.dis-equivalent machine; a sample also through CPython itself. Holds on everything explored; absence is not established.", "3 C01"),
 "C02": ("generated-input search weighted to memo>=256 and memo-index mutators at rate 1.0; oracle: reference machine memo rules",
         "GET resolves / PUT fresh / PUT operand not MARK, judged by the reference machine on outputs with hundreds of memo entries and under OffByOne/MemoIndex(safe) at rate 1.0.", "3 C02"),
 "C03": ("generated-input search + bounded decision-tree enumeration, name-table and boundary-word sweeps; oracle: kind-tracking reference machine",
         "Operand kinds of the typed opcodes listed in the property, computed by a machine written independently of src/; 3-5 step set-ups are reached systematically by the tree enumeration.", "3 C03"),
 "C04": ("generated-input search incl. unsafe mode + boundary-word sweep behind scripted opcodes; oracle: independent opcode lexer with pickletools argument readers, CPython pickletools.genops on a sample",
         "Every output (safe and unsafe) must decode completely with in-domain arguments and one trailing STOP.", "3 C04"),
 "C05": ("generated-input search + boundary-word sweep + 64 000-opcode programs; oracle: introduced-in-protocol column of the independent opcode table, PROTO header rules, 7-bit check for P0",
         "Every decoded opcode of every safe output, including the collapse tail.", "3 C05"),
 "C06": ("generated-input search incl. unsafe rewrites; oracle: FRAME position/uniqueness/length re-derived from the final bytes",
         "Frame length is recomputed from the decoded final output for framed outputs of many shapes, including outputs rewritten by the type-confusion mutator.", "3 C06"),
 "C07": ("repeat-and-compare (metamorphic: same input => same bytes) across instances, 16 concurrent threads, fresh processes (different working directories and environments) and CLI batch worker counts",
         "Digest equality across execution contexts; interleavings are sampled by stress, not enumerated.", "3 C07"),
 "C08": ("model-based stateful testing: generated call sequences (incl. re-configuration of the range and protocol fields, very large first pickles, histories of up to 70 000 calls) on one generator vs a fresh generator per call",
         "Sequences of generate / generate_from_arbitrary / reset of length 1..8; every call's result must equal a fresh generator's.", "3 C08"),
 "C09": ("generated-input search + exhaustive enumeration of all byte strings of length <= 2 + staged search over scripted repeated-word programs (towers) scaled to thousands of repetitions, in child processes with 2 MiB stacks, optimised and unoptimised builds",
         "Ok + non-empty, no panic/abort/stack overflow, emission fuel never exhausted; silent spins would only be reported as inconclusive.", "3 C09"),
 "C10": ("generated-input search over the four flag combinations incl. unsafe mode; oracle: decoded opcode histogram",
         "No EXT*/buffer opcode in any explored output unless its flag is set.", "3 C10"),
 "C11": ("generated-input search over all (min,max) shapes, plus a target probe over ranges of 2^16..2^63 opcodes (generation started under a 24-emission budget, T read from the trace hook); oracle: trace-hook counters + per-emission decoding",
         "T in range (also for ranges wider than 65 535, where only the draw of T is observed), exactly T single-opcode body emissions, tail <= 2T+1, decoded count bounds.", "3 C11"),
 "C12": ("existential search over a fixed large seed range per protocol; oracle: union of decoded opcode sets vs independent vocabulary table",
         "Every vocabulary opcode must be witnessed (witness seeds recorded); misses are violations because >= 25 witnesses are expected for the rarest opcode.", "3 C12"),
 "C13": ("differential testing of the built CLI binary, action wrapper and Python extension module against the library under an independently written option mapping",
         "Byte equality of files / returned bytes with the in-process library for generated option tuples and Python call sequences.", "3 C13"),
 "C14": ("generated-input search and generate/reset/drop sequences under a counting global allocator (exact live-bytes equality); peak resident set of small vs large CLI batch processes",
         "live(before Generator::new) == live(after drop) for every explored case after one warm-up generation; a batch process's peak memory does not grow with the number of samples.", "3 C14"),
 "C15": ("direct calls of every mutator on harness-built entropy sources (exhaustive for <=2 bytes, special f64 patterns) + spy mutators inside full generations, each re-run with the mutators unwrapped (byte equality)",
         "Rate 0 never fires / never rewrites; rate 1 fires whenever applicable, first applicable mutator wins.", "3 C15"),
 "C16": ("generated-input search over values x entropy states per mutator, plus the same contract observed inside whole generations; oracle: independent restatement of each documented transformation",
         "Checked on every Some/true result, including boundary values, empty/non-ASCII inputs and exhausted entropy.", "3 C16"),
 "C17": ("generated-input search + bounded decision-tree enumeration, name-table and boundary-word sweeps with the per-emission trace hook; oracle: step-by-step comparison with the reference machine",
         "Depth, MARK positions, kind compatibility and memo after every emission of every explored pickle.", "3 C17"),
 "C18": ("grid x exhaustive short byte strings x sampled PRNG states; oracle: range predicates and fallback determinism",
         "choose_index/gen_range/gen_ascii_char/gen_bytes contracts on both sources incl. exhausted input.", "3 C18"),
}

IMPLEMENTED = os.environ.get("IMPLEMENTED", "").split() or sorted(CHECKS)

def main():
    commits = subprocess.run(["git", "-C", "/repo", "log", "--format=%H %s"], capture_output=True, text=True).stdout.splitlines()
    hooks = [l.split()[0] for l in commits if " verif hook" in l]
    checks = []
    na = []
    for pid in sorted(CHECKS):
        tech, text, ref = CHECKS[pid]
        if pid not in IMPLEMENTED:
            na.append({"property_id": pid, "reason": "check not built yet (planned: " + tech + ")"})
            continue
        checks.append({
            "property_id": pid,
            "quick_cmd": "./check %s quick" % pid,
            "thorough_cmd": "./check %s thorough" % pid,
            "evidence_file": "/verif/evidence/%s.json" % pid,
            "replay_cmd_template": "./check replay {path}",
            "engine": "pfverif",
            "level_claimed": {"category": "exploration", "text": text, "design_ref": "DESIGN.md section " + ref},
            "level_note": "Trusted: rustc/cargo, proptest 1.11, CPython 3.11 pickletools as the definition of the reference disassembler, the hand-transcribed opcode table (machine-checked against pickletools at setup), the additive read-only hooks in src/verif.rs. Nothing is proved; the evidence file states what was explored.",
            "technique": tech,
        })
    m = {
        "version": 1,
        "setup_cmd": "./setup.sh",
        "hooks": {
            "guard": "cargo feature `verif` (cfg(feature = \"verif\"))",
            "enable": "the harness depends on cisco-ai-defense-pickle-fuzzer = { path = \"/repo\", features = [\"verif\"] }; ./check rebuilds it from /repo's working tree",
            "baseline_off_cmd": "cd /repo && cargo test --workspace --no-fail-fast --offline",
            "source_commits": list(reversed(hooks)),
            "add_only": True,
        },
        "engines": [
            {"name": "pfverif", "path": "/verif/harness", "serves_properties": [c["property_id"] for c in checks],
             "kind_free_text": "Rust harness: proptest 1.11 driven from a binary on 16 deterministic workers, bounded enumerations, independent reference pickle machine (refpvm), CPython pickletools differential"},
        ],
        "checks": checks,
        "not_applicable": na,
        "notes": "Exit codes: 0 held on everything explored, 1 VIOLATION (replay file written), 2 inconclusive / harness problem (never a violation). VERIF_SEED selects the PRNG streams. Known findings: /verif/known_findings.json.",
    }
    with open(os.path.join(HERE, "MANIFEST.json"), "w") as f:
        json.dump(m, f, indent=1)
        f.write("\n")

main()
