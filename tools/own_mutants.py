#!/usr/bin/env python3
"""Own sensitivity mutants (DESIGN.md 'Sensitivity' lists): each is (name, file, old, new, [checks]).
usage: own_mutants.py [name-substring ...]   -> builds the patch, runs tools/try_mutant.sh, prints a table
Patches are kept under /verif/seeded/own/<name>/patch.diff with meta.json."""
import json, os, subprocess, sys

R = "/repo"
M = [
 # C01
 ("c01-tuple2-needs-1", "src/generator/validation.rs", "Tuple2 => self.state.stack.len() >= 2,", "Tuple2 => self.state.stack.len() >= 1,", ["C01", "C17"]),
 ("c01-cleanup-skips-marks", "src/generator/stack_ops.rs", "        while self.has_mark() {\n            self.emit_opcode(Tuple);\n        }", "        if self.has_mark() {\n            self.emit_opcode(Tuple);\n        }", ["C01"]),
 ("c01-setitems-no-parity", "src/generator/validation.rs", ".is_some_and(|count| count > 0 && count % 2 == 0)\n            }\n\n            // set operations", ".is_some_and(|count| count > 0)\n            }\n\n            // set operations", ["C03"]),
 ("c01-pop-always", "src/generator/validation.rs", "Pop => self.state.stack.len() >= 1,", "Pop => true,", ["C01", "C17"]),
 ("c01-appends-no-mark-check", "src/generator/validation.rs", "            Appends => {\n                self.has_mark()\n                    && self.is_list_at_mark()", "            Appends => {\n                self.is_list_at(1)\n                    || self.has_mark() && self.is_list_at_mark()", ["C01", "C03", "C17"]),
 # C02
 ("c02-get-no-fallback", "src/generator/emission.rs", "                    let index =\n                        if self.unsafe_mutations || self.state.memo.contains_key(&mutated_index) {\n                            mutated_index\n                        } else {\n                            index\n                        };\n                    self.output.push(Get.as_u8());", "                    let index = mutated_index;\n                    self.output.push(Get.as_u8());", ["C02", "C01"]),
 ("c02-put-index-minus1", "src/generator/emission.rs", "                let index = self.state.memo.len() as u32;\n                self.output.push(LongBinPut.as_u8());", "                let index = self.state.memo.len().saturating_sub(1) as u32;\n                self.output.push(LongBinPut.as_u8());", ["C02", "C01"]),
 ("c02-put-on-mark", "src/generator/validation.rs", "                    && self.state.stack.len() >= 1\n                    && self\n                        .peek()\n                        .is_some_and(|obj| !matches!(*obj.borrow(), StackObject::Mark))\n            }\n\n            // STACK_GLOBAL", "                    && self.state.stack.len() >= 1\n            }\n\n            // STACK_GLOBAL", ["C02", "C01"]),
 ("c02-binget-min-off", "src/generator/emission.rs", "let mutated_index = self.mutate_memo_index(index, source).min(255);", "let mutated_index = self.mutate_memo_index(index, source).min(256);", ["C02", "C04"]),
 # C03
 ("c03-append-depth0", "src/generator/validation.rs", "Append => self.state.stack.len() >= 2 && self.is_list_at(1),", "Append => self.state.stack.len() >= 2 && self.is_list_at(0),", ["C03", "C17"]),
 ("c03-setitem-depth1", "src/generator/validation.rs", "SetItem => self.state.stack.len() >= 3 && self.is_dict_at(2),", "SetItem => self.state.stack.len() >= 3 && self.is_dict_at(1),", ["C03"]),
 ("c03-newobjex-shift", "src/generator/validation.rs", "                    && self.is_callable_at(2)\n                    && self.is_tuple_at(1)\n                    && self.is_dict_at(0)", "                    && self.is_callable_at(2)\n                    && self.is_tuple_at(0)\n                    && self.is_dict_at(1)", ["C03"]),
 ("c03-stackglobal-one-string", "src/generator/validation.rs", "self.state.stack.len() >= 2 && self.is_string_at(0) && self.is_string_at(1)", "self.state.stack.len() >= 2 && self.is_string_at(0)", ["C03"]),
 ("c03-dup-mark", "src/generator/validation.rs", "                if let Some(top) = self.peek() {\n                    !matches!(*top.borrow(), StackObject::Mark)\n                } else {\n                    false\n                }", "                self.peek().is_some()", ["C03", "C17"]),
 ("c03-additems-list", "src/generator/validation.rs", "                    && self.is_set_at_mark()", "                    && (self.is_set_at_mark() || self.is_list_at_mark())", ["C03"]),
 ("c03-build-any-state", "src/generator/validation.rs", "                    && (self.is_tuple_at(0) || self.is_dict_at(0))", "                    && (self.is_tuple_at(0) || self.is_dict_at(0) || self.is_list_at(0))", ["C03"]),
 # C04
 ("c04-string-no-backslash-escape", "src/generator/emission.rs", "                    .replace('\\\\', \"\\\\\\\\\") // backslash must be first\n", "", ["C04"]),
 ("c04-binunicode-be", "src/generator/emission.rs", "                self.output.push(BinUnicode.as_u8());\n                self.output\n                    .extend_from_slice(&(bytes.len() as u32).to_le_bytes());", "                self.output.push(BinUnicode.as_u8());\n                self.output\n                    .extend_from_slice(&(bytes.len() as u32).to_be_bytes());", ["C04"]),
 ("c04-long1-size5", "src/generator/emission.rs", "let size = 4u8;", "let size = 5u8;", ["C04"]),
 ("c04-persid-no-newline", "src/generator/emission.rs", 'let pid = format!("pid_{}\\n", source.gen_u32());', 'let pid = format!("pid_{}", source.gen_u32());', ["C04"]),
 ("c04-unicode-no-escape", "src/generator/emission.rs", "                let escaped = s.replace('\\\\', \"\\\\\\\\\");\n                let s_with_newline", "                let escaped = s.clone();\n                let s_with_newline", ["C04"]),
 ("c04-typeconf-short-string", "src/mutators/typeconfusion.rs", "                bytes.push(s.len() as u8);\n                bytes.extend_from_slice(s.as_bytes());", "                bytes.push(s.len() as u8 + 1);\n                bytes.extend_from_slice(s.as_bytes());", ["C04", "C16"]),
 # C05
 ("c05-tuple1-in-p1", "src/opcodes.rs", "        OpcodeKind::BinPersID,\n\n    ],\n    2_u8", "        OpcodeKind::BinPersID,\n        OpcodeKind::Tuple1,\n    ],\n    2_u8", ["C05"]),
 ("c05-proto-arg-plus1", "src/generator/emission.rs", "self.output.push(self.state.version as u8);", "self.output.push(if self.state.version == Version::V5 { 4 } else { self.state.version as u8 });", ["C05"]),
 ("c05-emit-int-wrong-table", "src/generator/emission.rs", "        let version = self.state.version as u8;\n        let Some(valid_kinds) = PICKLE_OPCODES.get(&version) else {\n            return Err(eyre!(\"No opcodes", "        let version = (self.state.version as u8).max(1);\n        let Some(valid_kinds) = PICKLE_OPCODES.get(&version) else {\n            return Err(eyre!(\"No opcodes", ["C05"]),
 # C06
 ("c06-frame-off-by-one", "src/generator/core.rs", "self.output.len().checked_sub(pos + 9)", "self.output.len().checked_sub(pos + 8)", ["C06"]),
 ("c06-frame-in-body", "src/generator/validation.rs", "            Frame => false, // don't emit", "            Frame => self.state.stack.len() > 40, // don't emit", ["C06", "C09"]),
 # C07
 ("c07-no-sort", "src/generator/emission.rs", "                let mut keys: Vec<_> = self.state.memo.keys().copied().collect();\n                keys.sort_unstable();\n                if !keys.is_empty() {\n                    let index = keys[source.gen_range(0, keys.len())];\n                    let mutated_index = self.mutate_memo_index(index, source);\n                    // in unsafe mode, allow any mutated index; otherwise validate it exists\n                    let index =\n                        if self.unsafe_mutations || self.state.memo.contains_key(&mutated_index) {\n                            mutated_index\n                        } else {\n                            index\n                        };\n                    self.output.push(LongBinGet.as_u8());", "                let keys: Vec<_> = self.state.memo.keys().copied().collect();\n                if !keys.is_empty() {\n                    let index = keys[source.gen_range(0, keys.len())];\n                    let mutated_index = self.mutate_memo_index(index, source);\n                    // in unsafe mode, allow any mutated index; otherwise validate it exists\n                    let index =\n                        if self.unsafe_mutations || self.state.memo.contains_key(&mutated_index) {\n                            mutated_index\n                        } else {\n                            index\n                        };\n                    self.output.push(LongBinGet.as_u8());", ["C07", "C13"]),
 # C08
 ("c08-reset-forgets-proto", "src/state.rs", "        self.proto_emitted = false;\n", "", ["C08"]),
 ("c08-reset-keeps-memo", "src/state.rs", "        self.memo.clear();\n", "", ["C08"]),
 # C09
 ("c09-range-underflow", "src/generator/core.rs", "let range = self.max_opcodes.saturating_sub(self.min_opcodes);", "let range = self.max_opcodes.wrapping_sub(self.min_opcodes);", ["C09", "C11"]),
 ("c09-binget-index-panic", "src/generator/emission.rs", "let index = valid_indices[source.gen_range(0, valid_indices.len())];", "let index = valid_indices[source.gen_range(0, valid_indices.len() + 1).min(valid_indices.len() - usize::from(valid_indices.len() > 300))];", ["C09"]),
 # C10
 ("c10-ext-default-p2", "src/generator/validation.rs", "            Ext1 | Ext2 | Ext4 => self.allow_ext_opcodes,", "            Ext1 | Ext2 => self.allow_ext_opcodes,\n            Ext4 => self.allow_ext_opcodes || self.state.memo.len() > 12,", ["C10"]),
 ("c10-buffer-inverted", "src/generator/validation.rs", "            NextBuffer => self.allow_buffer_opcodes,", "            NextBuffer => self.allow_buffer_opcodes || self.unsafe_mutations,", ["C10"]),
 # C11
 ("c11-range-plus2", "src/generator/core.rs", "self.min_opcodes + source.choose_index(range)", "self.min_opcodes + source.choose_index(range + 2)", ["C11"]),
 ("c11-short-skip", "src/generator/emission.rs", "                let bytes = s.into_bytes();\n                if bytes.len() < 256 {\n                    self.output.push(ShortBinUnicode.as_u8());", "                let bytes = s.into_bytes();\n                if bytes.len() < 48 {\n                    self.output.push(ShortBinUnicode.as_u8());", ["C11"]),
 # C12
 ("c12-newobjex-dead", "src/generator/validation.rs", "                    && self.is_tuple_at(1)\n                    && self.is_dict_at(0)", "                    && self.is_tuple_at(1)\n                    && self.is_dict_at(1)", ["C12"]),
 ("c12-build-dead", "src/generator/validation.rs", "                    && self.is_instance_at(1)\n", "                    && self.is_instance_at(0)\n", ["C12"]),
 ("c12-frame-never", "src/generator/core.rs", "let use_frame = self.state.version >= Version::V4 && source.gen_bool();", "let use_frame = self.state.version > Version::V4 && source.gen_bool();", ["C12"]),
 # C13
 ("c13-batch-drops-buffer", "src/main.rs", "        let allow_buffer_opcodes = args.allow_buffer;", "        let allow_buffer_opcodes = args.allow_buffer && args.samples < 2;", ["C13"]),
 ("c13-seed-mod-5", "src/main.rs", "                    Version::try_from((seed % 6) as usize).unwrap_or(Version::V3)\n                } else {\n                    Version::try_from(rand::rng().random_range(0..=5)).unwrap_or(Version::V3)\n                };\n\n                let mut generator =\n                    Generator::new(version).with_opcode_range(min_opcodes, max_opcodes);", "                    Version::try_from((seed % 5) as usize).unwrap_or(Version::V3)\n                } else {\n                    Version::try_from(rand::rng().random_range(0..=5)).unwrap_or(Version::V3)\n                };\n\n                let mut generator =\n                    Generator::new(version).with_opcode_range(min_opcodes, max_opcodes);", ["C13"]),
 ("c13-single-no-rate", "src/main.rs", "            generator = generator\n                .with_mutators(mutators)\n                .with_mutation_rate(args.mutation_rate)\n                .with_unsafe_mutations(args.unsafe_mutations);", "            generator = generator\n                .with_mutators(mutators)\n                .with_unsafe_mutations(args.unsafe_mutations);", ["C13"]),
 ("c13-batch-index-plus1", "src/main.rs", 'file_path.push(format!("{idx}.pkl"));', 'file_path.push(format!("{}.pkl", idx + usize::from(idx > 7)));', ["C13"]),
 # C14
 ("c14-forget", "src/generator/stack_ops.rs", "            PopMark => {\n                while let Some(item) = self.pop() {\n                    if matches!(*item.borrow(), StackObject::Mark) {\n                        break;\n                    }\n                }", "            PopMark => {\n                while let Some(item) = self.pop() {\n                    if matches!(*item.borrow(), StackObject::Mark) {\n                        std::mem::forget(item);\n                        break;\n                    }\n                }", ["C14"]),
 # C15
 ("c15-no-break", "src/generator/mutation.rs", "            if let Some(mutated) = mutator.mutate_float(result, source, self.mutation_rate) {\n                result = mutated;\n                break;\n            }", "            if let Some(mutated) = mutator.mutate_float(result, source, self.mutation_rate) {\n                result = mutated;\n            }", ["C15"]),
 ("c15-gate-lt", "src/mutators/mod.rs", "    if rate >= 1.0 {\n        return true;\n    }", "    if rate > 1.0 {\n        return true;\n    }", ["C15"]),
 # C16
 ("c16-bitflip-two", "src/mutators/bitflip.rs", "        let bit_pos = source.gen_range(0, 32);\n        Some(value ^ (1 << bit_pos))", "        let bit_pos = source.gen_range(0, 32);\n        Some(value ^ (3 << bit_pos.min(30)))", ["C16"]),
 ("c16-offbyone-plain-add", "src/mutators/offbyone.rs", "            Some(index.saturating_sub(1))", "            Some(index.saturating_sub(2))", ["C16"]),
 ("c16-char-range", "src/mutators/character.rs", "chars[idx] = (source.gen_u8() % 94 + 33) as char;", "chars[idx] = (source.gen_u8() % 95 + 33) as char;", ["C16"]),
 ("c16-memo-1001", "src/mutators/memoindex.rs", "Some(source.gen_range(0, 1000))", "Some(source.gen_range(0, 1001))", ["C16"]),
 ("c16-typeconf-same-type", "src/mutators/typeconfusion.rs", "            .filter(|&&t| t != original)", "            .filter(|&&t| t != original || t == StackType::None)", ["C16"]),
 ("c16-stringlen-take-plus1", "src/mutators/stringlen.rs", "                Some(value.chars().take(new_len).collect())", "                Some(value.chars().rev().take(new_len).collect())", ["C16"]),
 # C17
 ("c17-binpersid-nopop", "src/generator/stack_ops.rs", "                if let Some(_pid) = self.pop() {\n                    // in a real implementation, this would call persistent_load()", "                if let Some(_pid) = self.peek().cloned() {\n                    // in a real implementation, this would call persistent_load()", ["C17", "C01"]),
 ("c17-memoize-len-plus1", "src/generator/stack_ops.rs", "self.put(self.state.memo.len(), top.borrow().clone());", "self.put(self.state.memo.len() + usize::from(self.state.memo.len() > 5), top.borrow().clone());", ["C17", "C02"]),
 ("c17-frozenset-as-set", "src/generator/stack_ops.rs", "self.push(StackObject::FrozenSet(accumulated));", "self.push(StackObject::Set(accumulated));", ["C17", "C03"]),
 # C18
 ("c18-range-inclusive", "src/generator/source.rs", "u.int_in_range(min..=max.saturating_sub(1)).unwrap_or(min)", "u.int_in_range(min..=max).unwrap_or(min)", ["C18"]),
 ("c18-ascii-table", "src/generator/source.rs", "let idx = self.choose_index(ASCII_CHARS.len());", "let idx = self.choose_index(ASCII_CHARS.len() + 1).min(ASCII_CHARS.len() - 1);", []),
]

def sh(*a, **k):
    return subprocess.run(*a, shell=True, capture_output=True, text=True, **k)

def build_patch(name, f, old, new):
    d = f"/verif/seeded/own/{name}"
    os.makedirs(d, exist_ok=True)
    p = os.path.join(R, f)
    s = open(p).read()
    if s.count(old) != 1:
        print(f"!! {name}: pattern occurs {s.count(old)} times in {f}")
        return None
    # build the patch in a scratch worktree so /repo itself is never touched
    wt = "/tmp/pm-build"
    if not os.path.isdir(wt):
        sh(f"git -C {R} worktree add --detach {wt} HEAD")
    sh(f"git -C {wt} checkout -q --detach $(git -C {R} rev-parse HEAD); git -C {wt} checkout -q -- .")
    q = os.path.join(wt, f)
    content = open(q).read()
    open(q, "w").write(content.replace(old, new, 1))
    diff = sh(f"git -C {wt} diff").stdout
    sh(f"git -C {wt} checkout -q -- .")
    open(f"{d}/patch.diff", "w").write(diff)
    return d


def run_one(args):
    slot, (name, f, old, new, checks) = args
    d = f"/verif/seeded/own/{name}"
    r = sh(f"/verif/tools/par_mutant.sh {slot} {d}/patch.diff quick {' '.join(checks)}")
    out = r.stdout + r.stderr
    res = {}
    sigs = {}
    for l in out.splitlines():
        for c in checks:
            if l.startswith(c + " exit="):
                res[c] = int(l.split("exit=")[1].split()[0])
                if "signature:" in l:
                    sigs[c] = l.split("signature:")[1].strip()
    baseline = "green" if "baseline: green" in out else ("red" if "baseline: RED" in out else "?")
    json.dump({"origin": "own sensitivity mutant (DESIGN.md sensitivity lists); evaluated with tools/par_mutant.sh (scratch worktree + copy of the harness)",
               "file": f, "checks_run": checks, "exit_codes": res, "signatures": sigs, "baseline_tests": baseline}, open(f"{d}/meta.json", "w"), indent=1)
    return name, baseline, res, out


def main():
    import queue, threading
    pats = [a for a in sys.argv[1:] if not a.startswith("-j")]
    nslots = int(([a[2:] for a in sys.argv[1:] if a.startswith("-j")] or ["4"])[0])
    todo = []
    for m in M:
        name, f, old, new, checks = m
        if pats and not any(p in name for p in pats):
            continue
        if build_patch(name, f, old, new) and checks:
            todo.append(m)
    q = queue.Queue()
    for m in todo:
        q.put(m)
    rows = []
    lock = threading.Lock()

    def worker(slot):
        while True:
            try:
                m = q.get_nowait()
            except queue.Empty:
                return
            name, b, res, out = run_one((slot, m))
            with lock:
                rows.append((name, b, res))
                print(f"##### {name}")
                print("\n".join(l[:240] for l in out.splitlines()), flush=True)

    ts = [threading.Thread(target=worker, args=(i + 1,)) for i in range(nslots)]
    [t.start() for t in ts]
    [t.join() for t in ts]
    print("\n==== summary")
    for name, b, res in sorted(rows):
        print(f"{name:34s} baseline={b:5s} " + " ".join(f"{c}:{'CAUGHT' if v == 1 else ('incon' if v == 2 else 'missed')}" for c, v in res.items()))


main()
