#!/usr/bin/env bash
# usage: tools/par_mutant.sh <slot> <patch.diff> <tier> <ID> [<ID>...]
# Evaluates a mutant WITHOUT touching /repo, so several can run side by side: slot N owns the
# scratch worktree /tmp/pm-N (repo), a copy of the harness whose path dependency points at that
# worktree, and a scratch VERIF_DIR. Used for my own bulk sensitivity mutants only; seeded changes
# from sub-agents are (also) run the official way with tools/try_mutant.sh against /repo itself.
set -u
slot="$1"; patch="$(realpath "$2")"; tier="$3"; shift 3
export CARGO_NET_OFFLINE=true
W=/tmp/pm-$slot
if [ ! -d "$W" ]; then git -C /repo worktree add --detach "$W" HEAD >/dev/null 2>&1 || { echo "cannot create worktree $W"; exit 3; }; fi
cd "$W" && git checkout -q --detach "$(git -C /repo rev-parse HEAD)" && git checkout -q -- . && git clean -fdq -e target -e .pfv
V="$W/.pfv/verif"; H="$V/harness"
mkdir -p "$V" "$W/.pfv"
rsync -a --delete --exclude target /verif/harness/ "$H/"
sed -i "s|path = \"/repo\"|path = \"$W\"|" "$H/Cargo.toml"
printf '[net]\noffline = true\n[build]\ntarget-dir = "../target/harness"\n' > "$H/.cargo/config.toml"
rsync -a --delete /verif/py/ "$V/py/"; rsync -a --delete /verif/fuzz/ "$V/fuzz/" --exclude target; cp /verif/known_findings.json "$V/"; mkdir -p "$V/work" "$V/evidence" "$V/replays" "$V/fuzz"; rm -f "$V"/replays/*.json
git apply --check "$patch" 2>/dev/null || { echo "patch does not apply: $patch"; exit 3; }
git apply "$patch"
if [ "${SKIP_BASELINE:-0}" != 1 ]; then
  if cargo test --workspace --no-fail-fast --offline >"$W/.pfv/baseline.log" 2>&1; then echo "baseline: green"; else echo "baseline: RED (mutant is caught by the existing tests)"; grep -E "^test .* FAILED" "$W/.pfv/baseline.log" | head -3; fi
fi
if ! (cd "$H" && cargo build --release --offline >"$W/.pfv/build.log" 2>&1); then echo "harness build failed"; tail -5 "$W/.pfv/build.log"; git checkout -q -- .; exit 2; fi
for id in "$@"; do
  t0=$(date +%s.%N)
  out=$(VERIF_DIR="$V" VERIF_REPO="$W" VERIF_SEED="${VERIF_SEED:-1}" "$V/target/harness/release/pfverif" check "$id" "$tier" 2>&1); code=$?
  t1=$(date +%s.%N)
  line=$(echo "$out" | grep -E "^(VIOLATION|INCONCLUSIVE)" | head -1 | sed "s|$V|<scratch>|")
  sig=$(echo "$out" | grep -E "^  signature:" | head -1)
  printf "%s exit=%d %.1fs %s %s\n" "$id" "$code" "$(echo "$t1 - $t0" | bc)" "$line" "$sig"
  echo "$out" | grep -E "^  message:" | head -1 | cut -c1-300
done
git checkout -q -- . ; git clean -fdq -e target -e .pfv
