#!/usr/bin/env python3
"""usage: process_seed.py <ID> <a|b> <check> [<check>...]
Confirms a sub-agent seed in its scratch worktree (/tmp/wt-<ID>), runs the named checks against it
(applied to /repo, undone afterwards) and stores it as /verif/seeded/<ID>-<x>/ with meta.json."""
import json, os, re, shutil, subprocess, sys

pid, x, checks = sys.argv[1], sys.argv[2], sys.argv[3:]
rnd = os.environ.get("ROUND", "1")
src = f"/tmp/seed-{pid}/{x}" if rnd == "1" else f"/tmp/seed{rnd}-{pid}/{x}"
# round 2 seeds are stored as <ID>-c / <ID>-d
suffix = {"1": {"a": "a", "b": "b"}, "2": {"a": "c", "b": "d"}, "3": {"a": "e", "b": "f"}, "4": {"a": "g", "b": "h"}, "5": {"a": "i", "b": "j"}, "6": {"a": "k", "b": "l"}, "7": {"a": "m", "b": "n"}, "8": {"a": "o", "b": "p"}, "9": {"a": "q", "b": "r"}, "10": {"a": "s", "b": "t"}}[rnd][x]
dst = f"/verif/seeded/{pid}-{suffix}"
# CONFIRM_LOG=<file>: output of an earlier tools/confirm_seed.sh run for this seed (confirmations can then run in
# parallel in their own worktrees while the checks, which patch /repo, run one after the other)
if os.environ.get("CONFIRM_LOG"):
    class _C: stdout = open(os.environ["CONFIRM_LOG"]).read()
    c = _C()
else:
    c = subprocess.run(["/verif/tools/confirm_seed.sh", src, f"/tmp/wt-{pid}"], capture_output=True, text=True)
confirmed = c.stdout.strip().endswith("CONFIRMED") and "NOT-CONFIRMED" not in c.stdout
print(c.stdout.strip())
if not confirmed:
    sys.exit(1)
env = dict(os.environ, SKIP_BASELINE="1")
r = subprocess.run(["/verif/tools/try_mutant.sh", f"{src}/patch.diff", "quick"] + checks, capture_output=True, text=True, env=env)
print(r.stdout.strip()[:3000])
results = {}
for l in r.stdout.splitlines():
    m = re.match(r"^(C\d\d) exit=(\d+) ([\d.]+)s (.*)$", l)
    if m:
        sig = re.search(r"signature: (\S+)", l)
        results[m.group(1)] = {"exit": int(m.group(2)), "seconds": float(m.group(3)), "verdict": {0: "missed", 1: "caught", 2: "inconclusive"}.get(int(m.group(2)), "?"), "signature": sig.group(1) if sig else None}
os.makedirs(dst, exist_ok=True)
shutil.copy(f"{src}/patch.diff", f"{dst}/patch.diff")
if os.path.isdir(f"{dst}/demo"):
    shutil.rmtree(f"{dst}/demo")
shutil.copytree(f"{src}/demo", f"{dst}/demo")
shutil.copy(f"{src}/notes.md", f"{dst}/notes.md")
notes = open(f"{src}/notes.md").read()
meta_path = f"{dst}/meta.json"
old = json.load(open(meta_path)) if os.path.exists(meta_path) else {}
hist = old.get("history", [])
hist.append({"verif_commit": subprocess.run(["git", "-C", "/verif", "rev-parse", "--short", "HEAD"], capture_output=True, text=True).stdout.strip(), "results": results})
meta = {
    "breaks_property": pid,
    "origin": "independent sub-agent given only the property text and a scratch worktree",
    "needs_to_manifest": old.get("needs_to_manifest", "see notes.md"),
    "confirmed_by_me": {
        "how": "tools/confirm_seed.sh in scratch worktree: patch applies; builds with and without feature verif; `cargo test --workspace --no-fail-fast --offline` green with the patch; demo/run.sh RED with the patch and green without",
        "log": c.stdout.strip().splitlines(),
    },
    "checks_run_against_it": "tools/try_mutant.sh <patch> quick " + " ".join(checks) + " (git -C /repo apply, ./check <ID> quick, git -C /repo checkout -- .)",
    "results": results,
    "history": hist,
}
json.dump(meta, open(meta_path, "w"), indent=1)
print("stored", dst, {k: v["verdict"] for k, v in results.items()})
