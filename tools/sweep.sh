#!/usr/bin/env bash
# usage: tools/sweep.sh <tier> <seed> [<seed>...]  - every check once per seed, from fresh processes
tier="$1"; shift
cd "$(dirname "${BASH_SOURCE[0]}")/.."
for seed in "$@"; do
  for p in C01 C02 C03 C04 C05 C06 C07 C08 C09 C10 C11 C12 C13 C14 C15 C16 C17 C18; do
    t0=$(date +%s)
    out=$(VERIF_SEED=$seed ./check $p $tier 2>&1); code=$?
    t1=$(date +%s)
    echo "seed=$seed $p exit=$code $((t1-t0))s $(echo "$out" | grep -E '^(VIOLATION|INCONCLUSIVE|KNOWN)' | head -1 | cut -c1-200)"
  done
done
