#!/usr/bin/env bash
# usage: tools/try_mutant.sh <patch.diff> <tier> <ID> [<ID>...]
# Applies the patch to /repo's working tree, runs the given checks, undoes the patch.
# Prints one line per check: <ID> exit=<code> <seconds>s <first VIOLATION/INCONCLUSIVE line>
set -u
patch="$(realpath "$1")"; tier="$2"; shift 2
cd /verif
if [ -n "$(git -C /repo status --porcelain --untracked-files=no)" ]; then echo "refusing: /repo has local modifications" >&2; exit 3; fi
if ! git -C /repo apply --check "$patch" 2>/dev/null; then echo "patch does not apply: $patch" >&2; exit 3; fi
git -C /repo apply "$patch"
trap 'git -C /repo checkout -- . ; git -C /repo clean -fdq -e target >/dev/null 2>&1' EXIT
# the mutant must still pass the repository's own tests to count
if [ "${SKIP_BASELINE:-0}" != 1 ]; then
  if (cd /repo && cargo test --workspace --no-fail-fast --offline >/tmp/mut-baseline.log 2>&1); then echo "baseline: green"; else echo "baseline: RED (mutant is caught by the existing tests)"; grep -E "^test .* FAILED|error" /tmp/mut-baseline.log | head -5; fi
fi
before="$(ls /verif/replays/*.json 2>/dev/null | sort)"
for id in "$@"; do
  t0=$(date +%s.%N)
  out=$(VERIF_SEED="${VERIF_SEED:-1}" ./check "$id" "$tier" 2>&1); code=$?
  t1=$(date +%s.%N)
  line=$(echo "$out" | grep -E "^(VIOLATION|INCONCLUSIVE)" | head -1)
  sig=$(echo "$out" | grep -E "^  signature:" | head -1)
  printf "%s exit=%d %.1fs %s %s\n" "$id" "$code" "$(echo "$t1 - $t0" | bc)" "$line" "$sig"
  echo "$out" | grep -E "^  message:" | head -1 | cut -c1-300
done
# replay files written while the mutant was applied must not linger as regressions
# (the committed regression replays of the repaired findings stay)
for f in $(ls /verif/replays/*.json 2>/dev/null | sort); do
  echo "$before" | grep -qx "$f" || rm -f "$f"
done
git -C /verif checkout -- replays 2>/dev/null || true
