#!/usr/bin/env bash
# usage: tools/confirm_seed.sh <seed-dir> <worktree>
# Confirms a sub-agent's seeded change independently in a scratch worktree:
#   1. patch applies to a clean tree          2. tree builds with and without feature verif
#   3. existing test suite green with patch   4. demonstration RED with patch
#   5. demonstration GREEN without patch
# Prints CONFIRMED or NOT-CONFIRMED: <reason>.
set -u
sd="$(realpath "$1")"; wt="$2"
export CARGO_NET_OFFLINE=true
cd "$wt" || exit 3
git checkout -q -- . ; git clean -fdq -e target
git apply --check "$sd/patch.diff" || { echo "NOT-CONFIRMED: patch does not apply"; exit 1; }
git apply "$sd/patch.diff"
cargo build --offline >/dev/null 2>&1 || { echo "NOT-CONFIRMED: does not build"; git checkout -q -- .; exit 1; }
cargo build --offline --features verif >/dev/null 2>&1 || { echo "NOT-CONFIRMED: does not build with feature verif"; git checkout -q -- .; exit 1; }
if cargo test --workspace --no-fail-fast --offline >"$sd/confirm-baseline.log" 2>&1; then echo "  existing suite with patch: green ($(grep -c '^test .* ok$' "$sd/confirm-baseline.log") tests ok)"; else echo "NOT-CONFIRMED: existing test suite fails with the patch"; git checkout -q -- .; git clean -fdq -e target; exit 1; fi
run="$(ls "$sd"/demo/run.sh 2>/dev/null)"
[ -n "$run" ] || { echo "NOT-CONFIRMED: no demo/run.sh"; git checkout -q -- .; exit 1; }
if bash "$run" >"$sd/confirm-demo-with.log" 2>&1; then echo "NOT-CONFIRMED: demonstration passes with the patch applied"; git checkout -q -- .; git clean -fdq -e target; exit 1; else echo "  demonstration with patch: RED"; fi
git checkout -q -- . ; git clean -fdq -e target
if bash "$run" >"$sd/confirm-demo-without.log" 2>&1; then echo "  demonstration without patch: green"; else echo "NOT-CONFIRMED: demonstration fails on the unmodified tree"; git clean -fdq -e target; exit 1; fi
git checkout -q -- . ; git clean -fdq -e target
echo "CONFIRMED"
