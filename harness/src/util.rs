pub fn hex(b: &[u8]) -> String {
    let mut s = String::with_capacity(b.len() * 2);
    for x in b {
        s.push_str(&format!("{:02x}", x));
    }
    s
}

pub fn unhex(s: &str) -> Option<Vec<u8>> {
    if s.len() % 2 != 0 {
        return None;
    }
    (0..s.len()).step_by(2).map(|i| u8::from_str_radix(s.get(i..i + 2)?, 16).ok()).collect()
}

/// 64-bit FNV-1a with a final avalanche; used for distinctness counting and digests
pub fn digest(b: &[u8]) -> u64 {
    let mut h: u64 = 0xcbf29ce484222325;
    for x in b {
        h ^= *x as u64;
        h = h.wrapping_mul(0x100000001b3);
    }
    h ^= b.len() as u64;
    h ^= h >> 33;
    h = h.wrapping_mul(0xff51afd7ed558ccd);
    h ^= h >> 33;
    h = h.wrapping_mul(0xc4ceb9fe1a85ec53);
    h ^= h >> 33;
    h
}

/// 128-bit digest as hex (two independently seeded passes)
pub fn digest128(b: &[u8]) -> String {
    let a = digest(b);
    let mut h: u64 = 0x9e3779b97f4a7c15;
    for x in b {
        h = (h ^ (*x as u64)).wrapping_mul(0xd6e8feb86659fd93);
        h = h.rotate_left(29);
    }
    h ^= b.len() as u64;
    h ^= h >> 32;
    h = h.wrapping_mul(0xd6e8feb86659fd93);
    h ^= h >> 32;
    format!("{:016x}{:016x}", a, h)
}

pub fn digest_str(s: &str) -> u64 {
    digest(s.as_bytes())
}

/// splitmix64: derive independent seeds from (VERIF_SEED, worker, purpose)
pub fn mix(mut x: u64) -> u64 {
    x = x.wrapping_add(0x9e3779b97f4a7c15);
    x = (x ^ (x >> 30)).wrapping_mul(0xbf58476d1ce4e5b9);
    x = (x ^ (x >> 27)).wrapping_mul(0x94d049bb133111eb);
    x ^ (x >> 31)
}

pub fn seed_bytes(seed: u64, worker: u64, purpose: u64) -> [u8; 32] {
    let mut out = [0u8; 32];
    let mut s = mix(seed ^ mix(worker.wrapping_mul(0x1000193) ^ mix(purpose)));
    for i in 0..4 {
        s = mix(s);
        out[i * 8..i * 8 + 8].copy_from_slice(&s.to_le_bytes());
    }
    out
}

/// path to re-execute this very binary: /proc/self/exe keeps working even if the file on disk was
/// replaced by a concurrent rebuild
pub fn self_exe() -> std::path::PathBuf {
    let p = std::path::PathBuf::from("/proc/self/exe");
    if p.exists() {
        p
    } else {
        std::env::current_exe().unwrap_or_else(|_| std::path::PathBuf::from("pfverif"))
    }
}
