//! Replay files: re-judge one stored case without proptest.

use crate::case::GenCase;
use crate::props;
use crate::runner::{Ctx, Fail, Violation};
use serde_json::Value;

pub fn judge_value(ctx: &Ctx, case: &Value) -> Result<(), Fail> {
    // tree cases
    if let Some(sc) = case.get("script_case") {
        let sc: props::tree::ScriptCase = serde_json::from_value(sc.clone()).map_err(|e| Fail::new("harness:replay", e.to_string()))?;
        let oracle = match ctx.prop.as_str() {
            "C01" => props::tree::TreeOracle::C01,
            "C03" => props::tree::TreeOracle::C03,
            _ => props::tree::TreeOracle::C17,
        };
        return props::tree::replay(ctx, &sc, oracle);
    }
    if let Some((judge, want)) = props::outputs::judge_for(&ctx.prop) {
        let c: GenCase = serde_json::from_value(case.clone()).map_err(|e| Fail::new("harness:replay", e.to_string()))?;
        return props::outputs::replay_judge(ctx, judge, want, &c);
    }
    match ctx.prop.as_str() {
        "C17" => {
            let c: GenCase = serde_json::from_value(case.clone()).map_err(|e| Fail::new("harness:replay", e.to_string()))?;
            let mut st = crate::runner::Stats::default();
            props::c17::check_case(ctx, &c, &mut st)
        }
        _ => Err(Fail::new("harness:replay", format!("no replay handler for {}", ctx.prop))),
    }
}

/// `pfverif replay <file>`: exit 1 + VIOLATION line if the stored case still violates
pub fn replay_file(path: &str, make_ctx: fn(&str, &str) -> Ctx) -> i32 {
    let Ok(txt) = std::fs::read_to_string(path) else {
        eprintln!("cannot read {}", path);
        return 2;
    };
    let Ok(v) = serde_json::from_str::<Value>(&txt) else {
        eprintln!("{} is not JSON", path);
        return 2;
    };
    let prop = v.get("property").and_then(|x| x.as_str()).unwrap_or("");
    let mut ctx = make_ctx(prop, "quick");
    ctx.strict = true;
    match judge_value(&ctx, v.get("case").unwrap_or(&Value::Null)) {
        Ok(()) => {
            println!("replay {}: property {} holds on this case now", path, prop);
            0
        }
        Err(f) if f.sig.starts_with("harness:") => {
            println!("replay {}: {}", path, f.msg);
            2
        }
        Err(f) => {
            println!("  signature: {}", f.sig);
            println!("  message:   {}", f.msg);
            println!("VIOLATION property={} replay={}", prop, path);
            1
        }
    }
}

/// replay every stored file of this property; a still-failing one (not a known finding) is a violation
pub fn regressions(ctx: &Ctx) -> Option<Violation> {
    let dir = format!("{}/replays", ctx.verif_dir);
    let mut files: Vec<String> = std::fs::read_dir(&dir)
        .ok()?
        .filter_map(|e| e.ok())
        .map(|e| e.path().to_string_lossy().to_string())
        .filter(|p| p.ends_with(".json") && p.contains(&format!("/{}-", ctx.prop)))
        .collect();
    files.sort();
    for f in files {
        let Ok(txt) = std::fs::read_to_string(&f) else { continue };
        let Ok(v) = serde_json::from_str::<Value>(&txt) else { continue };
        let case = v.get("case").cloned().unwrap_or(Value::Null);
        if let Err(fail) = judge_value(ctx, &case) {
            if fail.sig.starts_with("harness:") {
                continue;
            }
            return Some(Violation { fail, case });
        }
    }
    None
}
