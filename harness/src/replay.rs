//! Replay files: re-judge one stored case without proptest.

use crate::case::GenCase;
use crate::props;
use crate::runner::{Ctx, Fail, Violation};
use serde_json::Value;

pub fn judge_value(ctx: &Ctx, case: &Value) -> Result<(), Fail> {
    // a case found in a process-history shard: re-judge it in a fresh, equally primed process
    if let Some(sh) = case.get("shard") {
        return props::outputs::replay_shard(ctx, sh);
    }
    // tree cases
    if let Some(sc) = case.get("script_case") {
        let sc: props::tree::ScriptCase = serde_json::from_value(sc.clone()).map_err(|e| Fail::new("harness:replay", e.to_string()))?;
        let oracle = match ctx.prop.as_str() {
            "C01" => props::tree::TreeOracle::C01,
            "C03" => props::tree::TreeOracle::C03,
            "C04" => props::tree::TreeOracle::C04,
            "C05" => props::tree::TreeOracle::C05,
            _ => props::tree::TreeOracle::C17,
        };
        return props::tree::replay(ctx, &sc, oracle);
    }
    if let Some(c) = case.get("wide_range_case") {
        let c: GenCase = serde_json::from_value(c.clone()).map_err(|e| Fail::new("harness:replay", e.to_string()))?;
        return props::outputs::probe_target(&c).map(|_| ());
    }
    if let Some((judge, want)) = props::outputs::judge_for(&ctx.prop) {
        let c: GenCase = serde_json::from_value(case.clone()).map_err(|e| Fail::new("harness:replay", e.to_string()))?;
        return props::outputs::replay_judge(ctx, judge, want, &c);
    }
    let bad = |e: serde_json::Error| Fail::new("harness:replay", e.to_string());
    if let Some(c) = case.get("cli_case") {
        let c: props::frontends::CliCase = serde_json::from_value(c.clone()).map_err(bad)?;
        if ctx.prop == "C10" {
            let cli = props::frontends::build_cli(ctx).map_err(|e| Fail::new("harness:build", e))?;
            let mut st = crate::runner::Stats::default();
            return props::frontends::check_cli_flags(ctx, &cli, &c, 999_997, &mut st);
        }
        if ctx.prop == "C07" {
            let cli = props::frontends::build_cli(ctx).map_err(|e| Fail::new("harness:build", e))?;
            let mut st = crate::runner::Stats::default();
            return props::procs::check_batch_workers(ctx, &cli, 999_998, &c, &mut st);
        }
        return props::frontends::replay_cli(ctx, &c);
    }
    if let Some(c) = case.get("py_seq") {
        let c: props::frontends::PySeq = serde_json::from_value(c.clone()).map_err(bad)?;
        return props::frontends::replay_py(ctx, &c);
    }
    if let Some(v) = case.get("tall") {
        return props::tree::replay_tall(ctx, v);
    }
    if let Some(v) = case.get("c14_long_lived") {
        return props::lib_level::replay_c14_long_lived(ctx, v);
    }
    if case.get("cli_many_faults").is_some() {
        let cli = props::frontends::build_cli(ctx).map_err(|e| Fail::new("harness:build", e))?;
        let mut st = crate::runner::Stats::default();
        return props::frontends::check_cli_many_faults(ctx, &cli, &mut st);
    }
    if case.get("py_seed_probe").is_some() {
        let pkg = props::frontends::build_python(ctx).map_err(|e| Fail::new("harness:build", e))?;
        let mut st = crate::runner::Stats::default();
        return props::frontends::check_python_seed_probe(ctx, &pkg, &mut st);
    }
    if let Some(c) = case.get("py_mem") {
        let c: props::frontends::PyMemCase = serde_json::from_value(c.clone()).map_err(bad)?;
        return props::frontends::replay_py_mem(ctx, &c);
    }
    if let Some(c) = case.get("cli_rss") {
        let c: props::frontends::RssCase = serde_json::from_value(c.clone()).map_err(bad)?;
        return props::frontends::replay_cli_rss(ctx, &c);
    }
    if case.get("tower").is_some() {
        return props::towers::replay(ctx, case);
    }
    if case.get("dev_profile").is_some() {
        let c: GenCase = serde_json::from_value(case["case"].clone()).map_err(bad)?;
        return props::procs::replay_c09_dev(ctx, &c);
    }
    if case.get("reach").is_some() {
        // C12 is existential over a seed range: re-run the batch check
        let o = props::lib_level::run_c12(ctx);
        return match o.violation {
            Some(v) => Err(v.fail),
            None => Ok(()),
        };
    }
    let mut st = crate::runner::Stats::default();
    match ctx.prop.as_str() {
        "C07" => {
            let c: GenCase = serde_json::from_value(case.clone()).map_err(bad)?;
            props::lib_level::check_c07_inproc(ctx, &c, &mut st)
        }
        "C08" => {
            let c: props::lib_level::SeqCase = serde_json::from_value(case.clone()).map_err(bad)?;
            props::lib_level::check_c08(ctx, &c, &mut st)
        }
        "C14" => {
            let c: props::lib_level::SeqCase = serde_json::from_value(case.clone()).map_err(bad)?;
            props::lib_level::check_c14(ctx, &c, &mut st)
        }
        "C09" => {
            let c: GenCase = serde_json::from_value(case.clone()).map_err(bad)?;
            props::procs::replay_c09(ctx, &c)
        }
        "C15" => {
            if case.get("mutator").is_some() {
                let c: props::direct::Call = serde_json::from_value(case.clone()).map_err(bad)?;
                props::direct::check_c15_direct(ctx, &c, &mut st)
            } else {
                let c: GenCase = serde_json::from_value(case.clone()).map_err(bad)?;
                props::c15::check_gen(ctx, &c, &mut st)
            }
        }
        "C16" => {
            if case.get("protocol").is_some() {
                // a whole generation (the generator-level part)
                let c: GenCase = serde_json::from_value(case.clone()).map_err(bad)?;
                return props::direct::check_c16_gen(ctx, &c, &mut st);
            }
            let c: props::direct::Call = serde_json::from_value(case.clone()).map_err(bad)?;
            props::direct::check_c16(ctx, &c, &mut st)
        }
        "C18" => {
            let c: props::direct::AdapterCase = serde_json::from_value(case.clone()).map_err(bad)?;
            props::direct::check_c18(ctx, &c, &mut st)
        }
        "C17" => {
            let c: GenCase = serde_json::from_value(case.clone()).map_err(|e| Fail::new("harness:replay", e.to_string()))?;
            let mut st = crate::runner::Stats::default();
            props::c17::check_case(ctx, &c, &mut st)
        }
        _ => Err(Fail::new("harness:replay", format!("no replay handler for {}", ctx.prop))),
    }
}

/// `pfverif replay <file>`: exit 1 + VIOLATION line if the stored case still violates
pub fn replay_file(path: &str, make_ctx: fn(&str, &str) -> Ctx) -> i32 {
    let Ok(txt) = std::fs::read_to_string(path) else {
        eprintln!("cannot read {}", path);
        return 2;
    };
    let Ok(v) = serde_json::from_str::<Value>(&txt) else {
        eprintln!("{} is not JSON", path);
        return 2;
    };
    let prop = v.get("property").and_then(|x| x.as_str()).unwrap_or("");
    let mut ctx = make_ctx(prop, "quick");
    ctx.strict = true;
    match judge_value(&ctx, v.get("case").unwrap_or(&Value::Null)) {
        Ok(()) => {
            println!("replay {}: property {} holds on this case now", path, prop);
            0
        }
        Err(f) if f.sig.starts_with("harness:") => {
            println!("replay {}: {}", path, f.msg);
            2
        }
        Err(f) => {
            println!("  signature: {}", f.sig);
            println!("  message:   {}", f.msg);
            println!("VIOLATION property={} replay={}", prop, path);
            1
        }
    }
}

/// replay every stored file of this property; a still-failing one (not a known finding) is a violation
pub fn regressions(ctx: &Ctx) -> Option<Violation> {
    let dir = format!("{}/replays", ctx.verif_dir);
    let mut files: Vec<String> = std::fs::read_dir(&dir)
        .ok()?
        .filter_map(|e| e.ok())
        .map(|e| e.path().to_string_lossy().to_string())
        .filter(|p| p.ends_with(".json") && p.contains(&format!("/{}-", ctx.prop)))
        .collect();
    files.sort();
    for f in files {
        let Ok(txt) = std::fs::read_to_string(&f) else { continue };
        let Ok(v) = serde_json::from_str::<Value>(&txt) else { continue };
        let case = v.get("case").cloned().unwrap_or(Value::Null);
        if let Err(fail) = judge_value(ctx, &case) {
            if fail.sig.starts_with("harness:") {
                continue;
            }
            return Some(Violation { fail, case });
        }
    }
    None
}
