//! One generator configuration + one entropy input = one `GenCase`; how to build the real
//! generator from it, run it under `catch_unwind`, and the proptest strategies that produce it.

use pickle_fuzzer::verif::{self, Trace, TraceCfg};
use pickle_fuzzer::{EmissionSnapshot, Generator, Mutator, MutatorKind, Version};
use proptest::prelude::*;
use serde::{Deserialize, Serialize};
use std::panic::{catch_unwind, AssertUnwindSafe};
use std::sync::{Arc, Mutex};

pub use pickle_fuzzer::verif::GenerationSource;

#[derive(Clone, Debug, PartialEq, Eq, Hash, Serialize, Deserialize)]
pub enum Entropy {
    Seed(u64),
    #[serde(with = "hexbytes")]
    Bytes(Vec<u8>),
}

pub mod hexbytes {
    use serde::{Deserialize, Deserializer, Serializer};
    pub fn serialize<S: Serializer>(v: &Vec<u8>, s: S) -> Result<S::Ok, S::Error> {
        s.serialize_str(&crate::util::hex(v))
    }
    pub fn deserialize<'de, D: Deserializer<'de>>(d: D) -> Result<Vec<u8>, D::Error> {
        let s = String::deserialize(d)?;
        crate::util::unhex(&s).ok_or_else(|| serde::de::Error::custom("bad hex"))
    }
}

#[derive(Clone, Copy, Debug, PartialEq, Eq, Hash, PartialOrd, Ord, Serialize, Deserialize)]
pub enum MutK {
    Bitflip,
    Boundary,
    Offbyone,
    Stringlen,
    Character,
    Memoindex,
    Typeconfusion,
}

pub const ALL_MUTK: [MutK; 7] = [
    MutK::Bitflip,
    MutK::Boundary,
    MutK::Offbyone,
    MutK::Stringlen,
    MutK::Character,
    MutK::Memoindex,
    MutK::Typeconfusion,
];

impl MutK {
    pub fn kind(self) -> MutatorKind {
        match self {
            MutK::Bitflip => MutatorKind::Bitflip,
            MutK::Boundary => MutatorKind::Boundary,
            MutK::Offbyone => MutatorKind::Offbyone,
            MutK::Stringlen => MutatorKind::Stringlen,
            MutK::Character => MutatorKind::Character,
            MutK::Memoindex => MutatorKind::Memoindex,
            MutK::Typeconfusion => MutatorKind::Typeconfusion,
        }
    }
    pub fn cli_name(self) -> &'static str {
        match self {
            MutK::Bitflip => "bitflip",
            MutK::Boundary => "boundary",
            MutK::Offbyone => "offbyone",
            MutK::Stringlen => "stringlen",
            MutK::Character => "character",
            MutK::Memoindex => "memoindex",
            MutK::Typeconfusion => "typeconfusion",
        }
    }
}

/// mutation rate: the f64 is stored by bit pattern (NaN / inf survive JSON), and whether it is
/// set through the clamping builder or directly on the public field
#[derive(Clone, Copy, Debug, PartialEq, Eq, Hash, Serialize, Deserialize)]
pub struct RateSpec {
    pub bits: u64,
    pub via_field: bool,
}

impl RateSpec {
    pub fn builder(r: f64) -> Self {
        RateSpec { bits: r.to_bits(), via_field: false }
    }
    pub fn field(r: f64) -> Self {
        RateSpec { bits: r.to_bits(), via_field: true }
    }
    pub fn value(&self) -> f64 {
        f64::from_bits(self.bits)
    }
    /// the rate the generator ends up with
    pub fn effective(&self) -> f64 {
        if self.via_field {
            self.value()
        } else {
            self.value().clamp(0.0, 1.0)
        }
    }
}

#[derive(Clone, Debug, PartialEq, Eq, Hash, Serialize, Deserialize)]
pub struct GenCase {
    pub protocol: u8,
    pub entropy: Entropy,
    pub min_opcodes: usize,
    pub max_opcodes: usize,
    pub mutators: Vec<MutK>,
    pub rate: RateSpec,
    pub unsafe_mutations: bool,
    pub allow_ext: bool,
    pub allow_buffer: bool,
    /// number of generation calls made on the same generator before the judged one (reuse
    /// history; 0 = fresh generator). A reused generator must behave like a fresh one (C08), so
    /// every output-based property is also judged on outputs of reused generators.
    #[serde(default)]
    pub prior_calls: u8,
    /// which of the equivalent public API entry points configure the generator: bit 0 - opcode knobs
    /// through with_min_opcodes / with_max_opcodes instead of with_opcode_range; bit 1 - mutators added one
    /// by one with with_mutator instead of with_mutators; bit 2 - knobs written to the public fields;
    /// bit 3 - setters that would only restate a default (unsafe=false, ext=false, buffer=false) are not
    /// called; bit 4 - the caller takes the public `output` buffer after every earlier call; bit 5 -
    /// the generator is constructed for another protocol and the public `state.version` field is then
    /// assigned, instead of `Generator::new(version)`; bits 6-7 say which other construction:
    /// 0 `Generator::default()`, 1 `Generator::new(V5)`, 2 `Generator::new(V0)`, 3 `Generator::new` of
    /// protocol+3 mod 6 with the earlier calls of a reuse history made under that other protocol;
    /// bit 8 - with bit 0: with_min_opcodes is called before with_max_opcodes instead of after it;
    /// bit 9 - re-configuration: every builder setter is first called with a different value (the opposite
    /// switch position, another range / rate / seed) and then with the wanted one - the last call wins
    #[serde(default)]
    pub build_style: u16,
    /// `with_buffer_size(n)` (documented as limiting the pickle size; a no-op in the tree as given)
    #[serde(default)]
    pub bufsize: Option<usize>,
}

impl GenCase {
    pub fn default_for(protocol: u8, seed: u64) -> Self {
        GenCase {
            protocol,
            entropy: Entropy::Seed(seed),
            min_opcodes: 60,
            max_opcodes: 300,
            mutators: vec![],
            rate: RateSpec::builder(0.1),
            unsafe_mutations: false,
            allow_ext: false,
            allow_buffer: false,
            prior_calls: 0,
            build_style: 0,
            bufsize: None,
        }
    }

    pub fn version(&self) -> Version {
        Version::try_from(self.protocol as usize).expect("protocol 0..=5")
    }

    /// short human-readable rendering for evidence samples
    pub fn brief(&self) -> String {
        let e = match &self.entropy {
            Entropy::Seed(s) => format!("seed={}", s),
            Entropy::Bytes(b) => {
                if b.len() <= 12 {
                    format!("bytes={}", crate::util::hex(b))
                } else {
                    format!("bytes[{}]={}..", b.len(), crate::util::hex(&b[..8]))
                }
            }
        };
        format!(
            "P{} {} ops={}..{} mut=[{}] rate={}{} unsafe={} ext={} buf={}",
            self.protocol,
            e,
            self.min_opcodes,
            self.max_opcodes,
            self.mutators.iter().map(|m| m.cli_name()).collect::<Vec<_>>().join(","),
            self.rate.value(),
            if self.rate.via_field { "(field)" } else { "" },
            self.unsafe_mutations as u8,
            self.allow_ext as u8,
            self.allow_buffer as u8
        ) + &if self.prior_calls > 0 { format!(" after {} earlier call(s)", self.prior_calls) } else { String::new() }
            + &if self.build_style > 0 { format!(" api-style={}", self.build_style) } else { String::new() }
            + &self.bufsize.map(|n| format!(" bufsize={}", n)).unwrap_or_default()
    }

    /// Build the real generator exactly the way the repository's own callers do
    /// (mutators are created with the generator's own unsafe flag, as in main.rs).
    pub fn build(&self, spy: Option<&SpyLog>) -> Generator {
        let mut g = if self.build_style & 32 != 0 {
            // constructed for another protocol, then the public `state.version` field is assigned
            let mut g = match (self.build_style >> 6) & 3 {
                0 => Generator::default(),
                1 => Generator::new(Version::V5),
                2 => Generator::new(Version::V0),
                _ => Generator::new(self.other_version()),
            };
            g.state.version = self.version();
            g
        } else {
            Generator::new(self.version())
        };
        if self.build_style & 512 != 0 {
            g = g
                .with_opcode_range(self.max_opcodes.wrapping_add(3) % 97, self.min_opcodes.wrapping_add(5) % 89)
                .with_seed(0x5eed ^ self.protocol as u64)
                .with_mutation_rate(if self.rate.value() == 1.0 { 0.0 } else { 1.0 })
                .with_unsafe_mutations(!self.unsafe_mutations)
                .with_ext_opcodes(!self.allow_ext)
                .with_buffer_opcodes(!self.allow_buffer);
            if matches!(self.entropy, Entropy::Bytes(_)) {
                // a generator for fuzzer bytes has no seed
                g.seed = None;
            }
        }
        if self.build_style & 4 != 0 {
            g.min_opcodes = self.min_opcodes;
            g.max_opcodes = self.max_opcodes;
        } else if self.build_style & 1 != 0 {
            g = if self.build_style & 256 != 0 {
                g.with_min_opcodes(self.min_opcodes).with_max_opcodes(self.max_opcodes)
            } else {
                g.with_max_opcodes(self.max_opcodes).with_min_opcodes(self.min_opcodes)
            };
        } else {
            g = g.with_opcode_range(self.min_opcodes, self.max_opcodes);
        }
        if let Entropy::Seed(s) = self.entropy {
            g = if self.build_style & 4 != 0 {
                g.seed = Some(s);
                g
            } else {
                g.with_seed(s)
            };
        }
        let muts: Vec<Box<dyn Mutator>> = self
            .mutators
            .iter()
            .enumerate()
            .map(|(i, m)| {
                let inner = m.kind().create(self.unsafe_mutations);
                match spy {
                    Some(log) => Box::new(Spy { idx: i, inner, log: log.clone() }) as Box<dyn Mutator>,
                    None => inner,
                }
            })
            .collect();
        if self.build_style & 2 != 0 {
            for m in muts {
                g = g.with_mutator(m);
            }
        } else {
            g = g.with_mutators(muts);
        }
        if self.rate.via_field {
            g.mutation_rate = self.rate.value();
        } else {
            g = g.with_mutation_rate(self.rate.value());
        }
        if let Some(n) = self.bufsize {
            g = g.with_buffer_size(n);
        }
        let skip_defaults = self.build_style & 8 != 0 && self.build_style & 512 == 0;
        if self.unsafe_mutations || !skip_defaults {
            g = g.with_unsafe_mutations(self.unsafe_mutations);
        }
        if self.allow_ext || !skip_defaults {
            g = g.with_ext_opcodes(self.allow_ext);
        }
        if self.allow_buffer || !skip_defaults {
            g = g.with_buffer_opcodes(self.allow_buffer);
        }
        g
    }

    /// one generation call on an existing generator with this case's entropy
    pub fn call(&self, g: &mut Generator) -> Result<Vec<u8>, Failure> {
        call_gen(g, &self.entropy)
    }

    /// entropy of the earlier calls of a reuse history: same seed (generate() re-seeds per call),
    /// or a different byte string derived from this case's bytes
    fn prior_entropy(&self, i: u8) -> Entropy {
        match &self.entropy {
            Entropy::Seed(s) => Entropy::Seed(*s),
            Entropy::Bytes(b) => {
                let mut v = b.clone();
                v.reverse();
                v.push(i);
                Entropy::Bytes(v)
            }
        }
    }

    fn other_version(&self) -> Version {
        Version::try_from((self.protocol as usize + 3) % 6).expect("protocol 0..=5")
    }

    fn warm(&self, g: &mut Generator, spy: Option<&SpyLog>) {
        let switch = self.build_style & 32 != 0 && (self.build_style >> 6) & 3 == 3 && self.prior_calls > 0;
        if switch {
            // the earlier calls of the history ran under the other protocol
            g.state.version = self.other_version();
        }
        for i in 0..self.prior_calls {
            let _ = call_gen_guarded(g, &self.prior_entropy(i));
            if self.build_style & 16 != 0 {
                // `output` is a public field; a caller may move the bytes out instead of cloning them
                let _ = std::mem::take(&mut g.output);
            }
        }
        if switch {
            g.state.version = self.version();
        }
        if let Some(l) = spy {
            l.lock().unwrap().clear();
        }
    }

    /// fresh generator (plus `prior_calls` earlier calls), one judged call
    pub fn run(&self) -> Result<Vec<u8>, Failure> {
        let mut g = self.build(None);
        self.warm(&mut g, None);
        call_gen_guarded(&mut g, &self.entropy)
    }

    /// as `run`, with the trace hook armed for the judged call
    pub fn run_traced(&self, cfg: TraceCfg, spy: Option<&SpyLog>) -> (Result<Vec<u8>, Failure>, Trace) {
        let mut g = self.build(spy);
        self.warm(&mut g, spy);
        verif::start(cfg);
        let r = self.call(&mut g);
        let t = verif::take();
        (r, t)
    }
}

#[derive(Clone, Debug, PartialEq, Eq)]
pub enum Failure {
    Err(String),
    Panic(String),
}

impl std::fmt::Display for Failure {
    fn fmt(&self, f: &mut std::fmt::Formatter<'_>) -> std::fmt::Result {
        match self {
            Failure::Err(e) => write!(f, "returned Err: {}", e),
            Failure::Panic(p) => write!(f, "panicked: {}", p),
        }
    }
}

pub fn panic_message(p: Box<dyn std::any::Any + Send>) -> String {
    if let Some(s) = p.downcast_ref::<&str>() {
        s.to_string()
    } else if let Some(s) = p.downcast_ref::<String>() {
        s.clone()
    } else {
        "<non-string panic payload>".to_string()
    }
}

/// emission / entropy-draw budgets for one generation with these knobs (see props::procs): any
/// generation the harness starts is armed with them, so a runaway loop in the code under test
/// ends in a panic (a failed generation, judged by C09) instead of hanging the check
pub fn budgets(min_opcodes: usize, max_opcodes: usize) -> (u64, u64) {
    let m = min_opcodes.max(max_opcodes) as u64;
    // far above anything legitimate (the exact 3*max+4 bound on the opcode count is C11's business,
    // judged from the counters; these budgets only exist to stop runaway loops)
    (m.saturating_mul(100).saturating_add(10_000), m.saturating_add(8).saturating_mul(100_000).saturating_add(1_000_000))
}

/// `call_gen` with the budgets armed (for callers that do not arm the trace sink themselves)
pub fn call_gen_guarded(g: &mut Generator, e: &Entropy) -> Result<Vec<u8>, Failure> {
    let (fuel, draw_fuel) = budgets(g.min_opcodes, g.max_opcodes);
    verif::start(TraceCfg { fuel: Some(fuel), draw_fuel: Some(draw_fuel), ..Default::default() });
    let r = call_gen(g, e);
    let _ = verif::take();
    r
}

pub fn call_gen(g: &mut Generator, e: &Entropy) -> Result<Vec<u8>, Failure> {
    let r = catch_unwind(AssertUnwindSafe(|| match e {
        Entropy::Seed(_) => g.generate(),
        Entropy::Bytes(b) => g.generate_from_arbitrary(b),
    }));
    match r {
        Ok(Ok(v)) => Ok(v),
        Ok(Err(e)) => Err(Failure::Err(format!("{}", e))),
        Err(p) => Err(Failure::Panic(panic_message(p))),
    }
}

// ------------------------------------------------------------------------------------------
// spy mutators: wrap the real mutator, delegate everything, log every call
// ------------------------------------------------------------------------------------------

#[derive(Clone, Copy, Debug, PartialEq, Eq, Hash, Serialize, Deserialize)]
pub enum ValKind {
    Int,
    Long,
    Float,
    Str,
    Bytes,
    Memo,
    Post,
}

#[derive(Clone, Debug, PartialEq)]
pub struct SpyEvent {
    pub idx: usize,
    pub kind: ValKind,
    /// input was an empty string / byte string
    pub empty_in: bool,
    /// `Some(..)` / `true` was returned
    pub fired: bool,
    /// post_process: the output buffer differs after the call
    pub changed: bool,
    /// first byte of the emission handed to post_process
    pub emitted: Option<u8>,
    /// memo-index calls: the index handed in and the one returned (if any)
    pub memo_io: Option<(usize, Option<usize>)>,
    /// post_process calls: the emission as the snapshot describes it, and what stands in its place afterwards
    pub post_io: Option<(Vec<u8>, Vec<u8>)>,
}

pub type SpyLog = Arc<Mutex<Vec<SpyEvent>>>;

#[derive(Debug)]
pub struct Spy {
    pub idx: usize,
    pub inner: Box<dyn Mutator>,
    pub log: SpyLog,
}

impl Spy {
    fn rec(&self, kind: ValKind, empty_in: bool, fired: bool, changed: bool, emitted: Option<u8>) {
        self.log.lock().unwrap().push(SpyEvent { idx: self.idx, kind, empty_in, fired, changed, emitted, memo_io: None, post_io: None });
    }
}

impl Mutator for Spy {
    fn name(&self) -> &str {
        self.inner.name()
    }
    fn mutate_int(&self, v: i32, s: &mut GenerationSource, r: f64) -> Option<i32> {
        let o = self.inner.mutate_int(v, s, r);
        self.rec(ValKind::Int, false, o.is_some(), false, None);
        o
    }
    fn mutate_long(&self, v: i64, s: &mut GenerationSource, r: f64) -> Option<i64> {
        let o = self.inner.mutate_long(v, s, r);
        self.rec(ValKind::Long, false, o.is_some(), false, None);
        o
    }
    fn mutate_float(&self, v: f64, s: &mut GenerationSource, r: f64) -> Option<f64> {
        let o = self.inner.mutate_float(v, s, r);
        self.rec(ValKind::Float, false, o.is_some(), false, None);
        o
    }
    fn mutate_string(&self, v: String, s: &mut GenerationSource, r: f64) -> Option<String> {
        let e = v.is_empty();
        let o = self.inner.mutate_string(v, s, r);
        self.rec(ValKind::Str, e, o.is_some(), false, None);
        o
    }
    fn mutate_bytes(&self, v: Vec<u8>, s: &mut GenerationSource, r: f64) -> Option<Vec<u8>> {
        let e = v.is_empty();
        let o = self.inner.mutate_bytes(v, s, r);
        self.rec(ValKind::Bytes, e, o.is_some(), false, None);
        o
    }
    fn mutate_memo_index(&self, v: usize, s: &mut GenerationSource, r: f64) -> Option<usize> {
        let o = self.inner.mutate_memo_index(v, s, r);
        self.log.lock().unwrap().push(SpyEvent { idx: self.idx, kind: ValKind::Memo, empty_in: false, fired: o.is_some(), changed: false, emitted: None, memo_io: Some((v, o)), post_io: None });
        o
    }
    fn is_unsafe(&self) -> bool {
        self.inner.is_unsafe()
    }
    fn post_process(&self, snap: &EmissionSnapshot, out: &mut Vec<u8>, s: &mut GenerationSource, r: f64) -> bool {
        let before = out.clone();
        let o = self.inner.post_process(snap, out, s, r);
        let changed = before != *out;
        let tail = out.get(snap.output_len..).map(|t| t.to_vec()).unwrap_or_default();
        self.log.lock().unwrap().push(SpyEvent {
            idx: self.idx,
            kind: ValKind::Post,
            empty_in: snap.output_delta.is_empty(),
            fired: o,
            changed,
            emitted: snap.output_delta.first().copied(),
            memo_io: None,
            post_io: Some((snap.output_delta.clone(), tail)),
        });
        o
    }
}

// ------------------------------------------------------------------------------------------
// strategies
// ------------------------------------------------------------------------------------------

#[derive(Clone, Copy, Debug, PartialEq, Eq)]
pub enum RateMode {
    /// {0, 1, uniform [0,1]} through the builder
    InRange,
    /// only 0.0 and 1.0
    Extremes,
    /// in-range plus out-of-range / NaN / inf through builder and field
    Wild,
}

#[derive(Clone, Copy, Debug, PartialEq, Eq)]
pub enum SizeMode {
    /// mostly tiny/default, some medium
    Mixed,
    /// Mixed plus 3000..8000
    WithLarge,
    /// only 3000..8000 (memo > 256)
    Large,
    /// Mixed plus a few cases in lo..hi (e.g. 20000..50000)
    WithHuge(usize, usize),
    /// tiny ranges only (enumeration-style coverage of the collapse tail)
    Tiny,
    /// min in lo..hi, max = min + 1..600
    Range(usize, usize),
}

#[derive(Clone, Copy, Debug, PartialEq, Eq)]
pub enum UnsafeMode {
    Never,
    Always,
    Draw,
}

#[derive(Clone, Debug)]
pub struct Profile {
    pub unsafe_mode: UnsafeMode,
    pub rate: RateMode,
    pub size: SizeMode,
    /// force these mutators to the front of the list with this probability (percent)
    pub favour: Vec<MutK>,
    pub favour_pct: u32,
    /// require at least one mutator
    pub need_mutator: bool,
    /// protocols to draw from
    pub protocols: Vec<u8>,
}

impl Profile {
    pub fn safe() -> Self {
        Profile {
            unsafe_mode: UnsafeMode::Never,
            rate: RateMode::InRange,
            size: SizeMode::Mixed,
            favour: vec![],
            favour_pct: 0,
            need_mutator: false,
            protocols: vec![0, 1, 2, 3, 4, 5],
        }
    }
    pub fn full() -> Self {
        Profile { unsafe_mode: UnsafeMode::Draw, ..Self::safe() }
    }
}

pub fn bytes_entropy() -> BoxedStrategy<Vec<u8>> {
    prop_oneof![
        1 => Just(Vec::new()),
        3 => proptest::collection::vec(any::<u8>(), 1..16),
        4 => proptest::collection::vec(any::<u8>(), 16..512),
        4 => proptest::collection::vec(any::<u8>(), 512..4096),
        1 => (0usize..2048).prop_map(|n| vec![0u8; n]),
        1 => (0usize..2048).prop_map(|n| vec![0xffu8; n]),
        1 => (any::<u8>(), 0usize..1024).prop_map(|(b, n)| vec![b; n]),
    ]
    .boxed()
}

pub fn entropy() -> BoxedStrategy<Entropy> {
    prop_oneof![
        1 => any::<u64>().prop_map(Entropy::Seed),
        1 => bytes_entropy().prop_map(Entropy::Bytes),
    ]
    .boxed()
}

pub fn opcode_range(size: SizeMode) -> BoxedStrategy<(usize, usize)> {
    let tiny = prop_oneof![
        1 => Just((0usize, 0usize)),
        4 => (0usize..20, 0usize..20),
        1 => (0usize..8).prop_map(|n| (n, n)),
    ];
    let default = Just((60usize, 300usize));
    let medium = (300usize..1500, 0usize..600).prop_map(|(a, d)| (a, a + d));
    let large = (3000usize..8000, 1usize..600).prop_map(|(a, d)| (a, a + d));
    let (hlo, hhi) = match size {
        SizeMode::WithHuge(a, b) => (a, b),
        _ => (20000, 50000),
    };
    let huge = (hlo..hhi, 1usize..500).prop_map(|(a, d)| (a, a + d));
    match size {
        SizeMode::Tiny => tiny.boxed(),
        SizeMode::Mixed => prop_oneof![5 => tiny, 4 => default, 1 => medium].boxed(),
        SizeMode::WithLarge => prop_oneof![30 => tiny, 30 => default, 8 => medium, 1 => large].boxed(),
        SizeMode::Large => large.boxed(),
        SizeMode::Range(lo, hi) => (lo..hi, 1usize..600).prop_map(|(a, d)| (a, a + d)).boxed(),
        SizeMode::WithHuge(..) => prop_oneof![600 => tiny, 600 => default, 120 => medium, 16 => large, 1 => huge].boxed(),
    }
}

/// ordered subset of the seven mutators (first applicable wins, so order matters)
pub fn mutator_list(p: &Profile) -> BoxedStrategy<Vec<MutK>> {
    let favour = p.favour.clone();
    let pct = p.favour_pct;
    let need = p.need_mutator;
    let base = prop_oneof![
        2 => Just(Vec::<MutK>::new()),
        6 => proptest::collection::vec(0usize..7, 0..=7).prop_map(|v| {
            let mut out: Vec<MutK> = Vec::new();
            for i in v {
                if !out.contains(&ALL_MUTK[i]) {
                    out.push(ALL_MUTK[i]);
                }
            }
            out
        }),
        1 => Just(ALL_MUTK.to_vec()),
        // a list may name a mutator more than once (with_mutators / with_mutator / --mutators accept any list)
        1 => proptest::collection::vec(0usize..7, 2..=6).prop_map(|v| v.into_iter().map(|i| ALL_MUTK[i]).collect::<Vec<MutK>>()),
        1 => (0usize..7, 2usize..=3, proptest::collection::vec(0usize..7, 0..=2)).prop_map(|(i, n, rest)| {
            let mut out = vec![ALL_MUTK[i]; n];
            out.extend(rest.into_iter().map(|j| ALL_MUTK[j]));
            out
        }),
    ];
    (base, 0u32..100)
        .prop_map(move |(mut v, roll)| {
            if roll < pct {
                let mut front = favour.clone();
                v.retain(|m| !front.contains(m));
                front.extend(v);
                v = front;
            }
            if need && v.is_empty() {
                v.push(MutK::Boundary);
            }
            v
        })
        .boxed()
}

pub fn rate(mode: RateMode) -> BoxedStrategy<RateSpec> {
    let inr = prop_oneof![
        2 => Just(RateSpec::builder(0.0)),
        3 => Just(RateSpec::builder(1.0)),
        2 => Just(RateSpec::builder(0.1)),
        3 => (0.0f64..=1.0).prop_map(RateSpec::builder),
    ];
    match mode {
        RateMode::InRange => inr.boxed(),
        RateMode::Extremes => prop_oneof![Just(RateSpec::builder(0.0)), Just(RateSpec::builder(1.0))].boxed(),
        RateMode::Wild => {
            let odd = prop_oneof![
                Just(-1.0f64),
                Just(2.0),
                Just(f64::INFINITY),
                Just(f64::NEG_INFINITY),
                Just(f64::NAN),
                Just(-0.0),
                Just(f64::MIN_POSITIVE),
                Just(1e300),
            ];
            prop_oneof![
                6 => inr,
                2 => (odd, any::<bool>()).prop_map(|(r, f)| RateSpec { bits: r.to_bits(), via_field: f }),
                1 => (0.0f64..=1.0).prop_map(RateSpec::field),
            ]
            .boxed()
        }
    }
}

pub fn gencase(p: &Profile) -> BoxedStrategy<GenCase> {
    let protos = p.protocols.clone();
    let um = p.unsafe_mode;
    (
        proptest::sample::select(protos),
        entropy(),
        opcode_range(p.size),
        mutator_list(p),
        rate(p.rate),
        any::<bool>(),
        prop_oneof![2 => Just(false), 1 => Just(true)],
        prop_oneof![2 => Just(false), 1 => Just(true)],
        prop_oneof![14 => Just(0u8), 4 => Just(1u8), 2 => Just(2u8)],
        (prop_oneof![3 => Just(0u16), 2 => 0u16..64, 2 => 0u16..1024], prop_oneof![9 => Just(None), 1 => proptest::sample::select(vec![16usize, 64, 256, 320, 1024, 4096, 1 << 20]).prop_map(Some)]),
    )
        .prop_map(move |(protocol, entropy, (min, max), mutators, rate, uns, ext, buf, prior, (style, bufsize))| GenCase {
            protocol,
            entropy,
            min_opcodes: min,
            max_opcodes: max,
            mutators,
            rate,
            unsafe_mutations: match um {
                UnsafeMode::Never => false,
                UnsafeMode::Always => true,
                UnsafeMode::Draw => uns,
            },
            allow_ext: ext,
            allow_buffer: buf,
            // long programs are not repeated (cost), everything else sometimes runs on a reused generator
            prior_calls: if min.max(max) > 2000 { 0 } else { prior },
            build_style: style,
            bufsize,
        })
        .boxed()
}

/// decode a `GenCase` from raw fuzzer bytes (libFuzzer targets): a fixed header selects the
/// configuration, the rest is the entropy input
pub fn gencase_from_bytes(data: &[u8], unsafe_mode: UnsafeMode) -> GenCase {
    let b = |i: usize| data.get(i).copied().unwrap_or(0);
    let protocol = b(0) % 6;
    let flags = b(1);
    let mask = b(2) & 0x7f;
    let order = b(3);
    let size = b(4);
    let ratesel = b(5);
    let (min, max) = match size % 8 {
        0 => (0, 0),
        1 => ((b(6) % 20) as usize, (b(7) % 20) as usize),
        2 | 3 | 4 => (60, 300),
        5 => (b(6) as usize, b(6) as usize + b(7) as usize),
        6 => ((b(6) % 8) as usize, (b(6) % 8) as usize),
        // generation cost grows quadratically with the program length (and ~5x under ASan), so the
        // coverage-guided targets stay below ~800 opcodes; long programs are proptest's job
        _ => (300 + b(6) as usize, 300 + b(6) as usize + b(7) as usize),
    };
    let mut mutators: Vec<MutK> = (0..7).filter(|i| mask & (1 << i) != 0).map(|i| ALL_MUTK[i]).collect();
    if !mutators.is_empty() {
        let r = order as usize % mutators.len();
        mutators.rotate_left(r);
        if order & 0x80 != 0 {
            mutators.reverse();
        }
    }
    let rate = match ratesel % 6 {
        0 => RateSpec::builder(0.0),
        1 | 2 => RateSpec::builder(1.0),
        3 => RateSpec::builder(0.1),
        _ => RateSpec::builder(b(8) as f64 / 255.0),
    };
    let rest = if data.len() > 9 { data[9..].to_vec() } else { Vec::new() };
    let entropy = if flags & 1 != 0 {
        let mut s = [0u8; 8];
        for (i, x) in rest.iter().take(8).enumerate() {
            s[i] = *x;
        }
        Entropy::Seed(u64::from_le_bytes(s))
    } else {
        Entropy::Bytes(rest)
    };
    GenCase {
        protocol,
        entropy,
        min_opcodes: min,
        max_opcodes: max,
        mutators,
        rate,
        unsafe_mutations: match unsafe_mode {
            UnsafeMode::Never => false,
            UnsafeMode::Always => true,
            UnsafeMode::Draw => flags & 2 != 0,
        },
        allow_ext: flags & 4 != 0,
        allow_buffer: flags & 8 != 0,
        prior_calls: (flags >> 4) % 3,
        build_style: (flags >> 6) as u16 | (((b(8) & 0x3f) as u16) << 2) | (((b(5) >> 7) as u16) << 8),
        bufsize: None,
    }
}
