use pfv::props;
use pfv::runner::{self, Ctx, Known, Outcome};
use std::time::Instant;

fn usage() -> ! {
    eprintln!("usage: pfverif check <C01..C18> <quick|thorough> | replay <file> | optable | selftest");
    std::process::exit(2);
}

fn env_seed() -> u64 {
    std::env::var("VERIF_SEED").ok().and_then(|s| s.trim().parse::<u64>().ok()).unwrap_or(1)
}

fn make_ctx(prop: &str, tier: &str) -> Ctx {
    let verif_dir = std::env::var("VERIF_DIR").unwrap_or_else(|_| "/verif".to_string());
    let repo_dir = std::env::var("VERIF_REPO").unwrap_or_else(|_| "/repo".to_string());
    let known = Known::load(&format!("{}/known_findings.json", verif_dir));
    Ctx { prop: prop.to_string(), tier: tier.to_string(), seed: env_seed(), verif_dir, repo_dir, known, strict: false }
}

fn run_check(ctx: &Ctx) -> Outcome {
    match ctx.prop.as_str() {
        "C01" => props::outputs::run_c01(ctx),
        "C02" => props::outputs::run_c02(ctx),
        "C03" => props::outputs::run_c03(ctx),
        "C04" => props::outputs::run_c04(ctx),
        "C05" => props::outputs::run_c05(ctx),
        "C06" => props::outputs::run_c06(ctx),
        "C10" => props::outputs::run_c10(ctx),
        "C11" => props::outputs::run_c11(ctx),
        "C17" => props::c17::run(ctx),
        _ => {
            eprintln!("unknown property {}", ctx.prop);
            std::process::exit(2);
        }
    }
}

fn main() {
    // generation panics are caught and judged by the oracles; keep stderr quiet
    std::panic::set_hook(Box::new(|_| {}));
    let args: Vec<String> = std::env::args().collect();
    if args.len() < 2 {
        usage();
    }
    match args[1].as_str() {
        "optable" => print!("{}", pfv::refpvm::optable::dump()),
        "check" => {
            if args.len() < 4 {
                usage();
            }
            let ctx = make_ctx(&args[2], &args[3]);
            let started = Instant::now();
            // regression tier: every stored replay of this property first
            let mut out_pre: Option<Outcome> = None;
            if let Some(v) = pfv::replay::regressions(&ctx) {
                let mut o = Outcome::new("regression replay of a stored failing case");
                o.violation = Some(v);
                out_pre = Some(o);
            }
            let out = match out_pre {
                Some(o) => o,
                None => run_check(&ctx),
            };
            std::process::exit(runner::finish(&ctx, out, started));
        }
        "replay" => {
            if args.len() < 3 {
                usage();
            }
            std::process::exit(pfv::replay::replay_file(&args[2], make_ctx));
        }
        _ => usage(),
    }
}
