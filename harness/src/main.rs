use pfv::props;
use pfv::runner::{self, Ctx, Known, Outcome};
use std::time::Instant;

#[global_allocator]
static GLOBAL: pfv::alloc::Counting = pfv::alloc::Counting;

fn usage() -> ! {
    eprintln!("usage: pfverif check <C01..C18> <quick|thorough> | replay <file> | optable | selftest");
    std::process::exit(2);
}

fn env_seed() -> u64 {
    std::env::var("VERIF_SEED").ok().and_then(|s| s.trim().parse::<u64>().ok()).unwrap_or(1)
}

fn make_ctx(prop: &str, tier: &str) -> Ctx {
    let verif_dir = std::env::var("VERIF_DIR").unwrap_or_else(|_| "/verif".to_string());
    let repo_dir = std::env::var("VERIF_REPO").unwrap_or_else(|_| "/repo".to_string());
    let known = Known::load(&format!("{}/known_findings.json", verif_dir));
    Ctx { prop: prop.to_string(), tier: tier.to_string(), seed: env_seed(), verif_dir, repo_dir, known, strict: false }
}

fn run_check(ctx: &Ctx) -> Outcome {
    match ctx.prop.as_str() {
        "C01" => props::outputs::run_c01(ctx),
        "C02" => props::outputs::run_c02(ctx),
        "C03" => props::outputs::run_c03(ctx),
        "C04" => props::outputs::run_c04(ctx),
        "C05" => props::outputs::run_c05(ctx),
        "C06" => props::outputs::run_c06(ctx),
        "C10" => props::outputs::run_c10(ctx),
        "C11" => props::outputs::run_c11(ctx),
        "C17" => props::c17::run(ctx),
        "C07" => props::procs::run_c07(ctx),
        "C08" => props::lib_level::run_c08(ctx),
        "C09" => props::procs::run_c09(ctx),
        "C12" => props::lib_level::run_c12(ctx),
        "C13" => props::frontends::run_c13(ctx),
        "C14" => props::lib_level::run_c14(ctx),
        "C15" => props::c15::run(ctx),
        "C16" => props::direct::run_c16(ctx),
        "C18" => props::direct::run_c18(ctx),
        _ => {
            eprintln!("unknown property {}", ctx.prop);
            std::process::exit(2);
        }
    }
}

/// thorough tier: add a coverage-guided libFuzzer campaign with the semantic oracles in-target
fn thorough_fuzz(ctx: &Ctx, out: &mut Outcome) {
    use pfv::fuzzrun::{run, Campaign};
    if !ctx.thorough() || out.failed() || out.inconclusive.is_some() || std::env::var_os("VERIF_NO_FUZZ").is_some() {
        return;
    }
    let c = match ctx.prop.as_str() {
        "C01" | "C02" | "C03" | "C04" | "C05" | "C06" | "C09" | "C10" | "C11" | "C17" => Campaign { target: "gen_all", runs_per_job: 10_000, jobs: 12, max_len: 2048, detect_leaks: false },
        "C08" => Campaign { target: "reuse", runs_per_job: 5_000, jobs: 12, max_len: 1024, detect_leaks: false },
        "C14" => Campaign { target: "reuse", runs_per_job: 5_000, jobs: 12, max_len: 1024, detect_leaks: true },
        "C15" | "C16" => Campaign { target: "mutators", runs_per_job: 400_000, jobs: 8, max_len: 256, detect_leaks: false },
        _ => return,
    };
    run(ctx, out, &c);
}

fn main() {
    // generation panics are caught and judged by the oracles; keep stderr quiet
    if std::env::var_os("PFV_SHOW_PANICS").is_none() {
        std::panic::set_hook(Box::new(|_| {}));
    }
    let args: Vec<String> = std::env::args().collect();
    if args.len() < 2 {
        usage();
    }
    match args[1].as_str() {
        "optable" => print!("{}", pfv::refpvm::optable::dump()),
        "check" => {
            if args.len() < 4 {
                usage();
            }
            let ctx = make_ctx(&args[2], &args[3]);
            let started = Instant::now();
            // last line of defence against a check that cannot finish (e.g. code under test spinning where
            // no budget applies): give up as INCONCLUSIVE (exit 2), never as a violation
            let limit: u64 = std::env::var("VERIF_WATCHDOG_S").ok().and_then(|s| s.parse().ok()).unwrap_or(if ctx.thorough() { 6 * 3600 } else { 2400 });
            {
                let prop = ctx.prop.clone();
                std::thread::spawn(move || {
                    std::thread::sleep(std::time::Duration::from_secs(limit));
                    println!("INCONCLUSIVE property={} watchdog: the check did not finish within {} s", prop, limit);
                    std::process::exit(2);
                });
            }
            // regression tier: every stored replay of this property first
            let mut out_pre: Option<Outcome> = None;
            if let Some(v) = pfv::replay::regressions(&ctx) {
                let mut o = Outcome::new("regression replay of a stored failing case");
                o.violation = Some(v);
                out_pre = Some(o);
            }
            let out = match out_pre {
                Some(o) => o,
                None => match std::panic::catch_unwind(std::panic::AssertUnwindSafe(|| {
                    // VERIF_ONLY_FUZZ=1 (debugging aid): skip the proptest phases of a thorough run
                    let mut o = if std::env::var_os("VERIF_ONLY_FUZZ").is_some() { Outcome::new("libFuzzer campaign only") } else { run_check(&ctx) };
                    thorough_fuzz(&ctx, &mut o);
                    o
                })) {
                    Ok(o) => o,
                    Err(p) => {
                        // a panic of the harness itself is never a verdict about the repository
                        println!("INCONCLUSIVE property={} the harness panicked: {}", ctx.prop, pfv::case::panic_message(p));
                        std::process::exit(2);
                    }
                },
            };
            std::process::exit(runner::finish(&ctx, out, started));
        }
        "shard" => {
            // pfverif shard <prop> <first_protocol> <cases>
            let ctx = make_ctx(&args[2], "quick");
            let p: u8 = args.get(3).and_then(|s| s.parse().ok()).unwrap_or(5);
            let n: u64 = args.get(4).and_then(|s| s.parse().ok()).unwrap_or(1000);
            std::process::exit(props::outputs::shard_child(&ctx, p, n));
        }
        "shard-one" => {
            let ctx = make_ctx(&args[2], "quick");
            let p: u8 = args.get(3).and_then(|s| s.parse().ok()).unwrap_or(5);
            std::process::exit(props::outputs::shard_one(&ctx, p, &args[4]));
        }
        "c09-child" => {
            let ctx = make_ctx("C09", args.get(2).map(|s| s.as_str()).unwrap_or("quick"));
            std::process::exit(props::procs::c09_child(&ctx));
        }
        "towers-info" => {
            // development aid: pfverif towers-info <n> [<protocol>] - stage 1 counts and per-shape cost at height n
            let ctx = make_ctx("C09", "quick");
            let n: usize = args.get(2).and_then(|s| s.parse().ok()).unwrap_or(2000);
            let mut st = pfv::runner::Stats::default();
            for p in 0u8..=5 {
                if args.get(3).and_then(|s| s.parse::<u8>().ok()).map_or(false, |q| q != p) {
                    continue;
                }
                let t0 = std::time::Instant::now();
                match props::towers::discover(p, &mut st) {
                    Err((tw, f)) => println!("P{} stage 1 failure {} {}", p, tw.brief(), f.msg),
                    Ok(k) => {
                        println!("P{} kept {} in {:?}", p, k.len(), t0.elapsed());
                        let cnt = |f: &dyn Fn(&props::towers::Kept) -> bool| k.iter().filter(|x| f(x)).count();
                        println!(
                            "  builders {} open/close {} growers {} inert {}",
                            cnt(&|x| x.tower.b.is_empty() && x.growth == 0 && x.bytes_per_rep >= 8),
                            cnt(&|x| !x.tower.b.is_empty()),
                            cnt(&|x| x.tower.b.is_empty() && x.growth > 0),
                            cnt(&|x| x.tower.b.is_empty() && x.growth == 0 && x.bytes_per_rep < 8)
                        );
                        for x in k.iter().filter(|x| x.tower.b.is_empty() && x.growth == 0 && x.bytes_per_rep >= 8).take(400) {
                            println!("    builder {} bytes/rep={}", x.tower.brief(), x.bytes_per_rep);
                        }
                        for x in k.iter().filter(|x| !x.tower.b.is_empty()).take(400) {
                            println!("    openclose {} bytes/rep={}", x.tower.brief(), x.bytes_per_rep);
                        }
                        let mut costs: Vec<(u128, String, bool)> = std::thread::Builder::new()
                            .stack_size(1 << 30)
                            .spawn(move || {
                                k.iter()
                                    .map(|k| {
                                        let tw = k.tower.scaled(n);
                                        let t1 = std::time::Instant::now();
                                        let r = props::towers::run_tower(&tw, false);
                                        (t1.elapsed().as_millis(), format!("{} growth={} bytes/rep={}", tw.brief(), k.growth, k.bytes_per_rep), r.followed)
                                    })
                                    .collect()
                            })
                            .unwrap()
                            .join()
                            .unwrap();
                        costs.sort();
                        let total: u128 = costs.iter().map(|c| c.0).sum();
                        println!("  total {} ms at n={}; slowest:", total, n);
                        for c in costs.iter().rev().take(12) {
                            println!("   {:6} ms followed={} {}", c.0, c.2, c.1);
                        }
                    }
                }
            }
            let _ = ctx;
            std::process::exit(0);
        }
        "c09-towers" => {
            // pfverif c09-towers <file> [<index>]
            let ctx = make_ctx("C09", "quick");
            let only = args.get(3).and_then(|s| s.parse().ok());
            std::process::exit(props::towers::towers_child(&ctx, &args[2], only));
        }
        "c09-one" => {
            let ctx = make_ctx("C09", "quick");
            std::process::exit(props::procs::c09_one(&ctx, &args[2]));
        }
        "selftest" => {
            let ctx = make_ctx("selftest", "quick");
            let n = args.get(2).and_then(|s| s.parse().ok()).unwrap_or(30_000);
            std::process::exit(pfv::selftest::run(&ctx, n));
        }
        "digest-cases" => std::process::exit(props::procs::digest_cases(&args[2], args.get(3).and_then(|s| s.parse().ok()).unwrap_or(0))),
        "replay" => {
            if args.len() < 3 {
                usage();
            }
            std::process::exit(pfv::replay::replay_file(&args[2], make_ctx));
        }
        _ => usage(),
    }
}
