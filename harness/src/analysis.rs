//! Run one `GenCase` on the real generator and derive everything the output-based oracles
//! need: decoded opcode stream, reference-machine verdict, histogram, trace.

use crate::case::{Failure, GenCase, SpyEvent, SpyLog};
use crate::refpvm::lexer::{self, LexError, Op};
use crate::refpvm::machine::{self, RunOut};
use crate::refpvm::optable as t;
use pickle_fuzzer::verif::{Trace, TraceCfg};
use std::sync::{Arc, Mutex};

pub struct Analysis {
    pub result: Result<Vec<u8>, Failure>,
    pub trace: Trace,
    pub spy: Vec<SpyEvent>,
    /// pickletools-exact decoding (up to the first STOP)
    pub ops: Result<Vec<Op>, LexError>,
    /// first C04 violation of the whole output (decoding, domains, single trailing STOP)
    pub c04: Option<LexError>,
    /// reference machine over `ops`
    pub run: Option<RunOut>,
    pub hist: [u32; 256],
}

#[derive(Clone, Copy, Debug, Default)]
pub struct Want {
    pub steps: bool,
    pub state: bool,
    pub valid: bool,
    pub spy: bool,
    pub machine: bool,
}

impl Analysis {
    pub fn output(&self) -> Option<&[u8]> {
        self.result.as_ref().ok().map(|v| v.as_slice())
    }
    pub fn count(&self, code: u8) -> u32 {
        self.hist[code as usize]
    }
    pub fn n_ops(&self) -> usize {
        self.ops.as_ref().map(|o| o.len()).unwrap_or(0)
    }
    pub fn has_any(&self, codes: &[u8]) -> bool {
        codes.iter().any(|c| self.hist[*c as usize] > 0)
    }
}

pub const MARK_CONSUMERS: &[u8] =
    &[t::APPENDS, t::LIST, t::TUPLE, t::DICT, t::SETITEMS, t::ADDITEMS, t::FROZENSET, t::POP_MARK, t::INST, t::OBJ];
pub const GETS: &[u8] = &[t::GET, t::BINGET, t::LONG_BINGET];
pub const PUTS: &[u8] = &[t::PUT, t::BINPUT, t::LONG_BINPUT, t::MEMOIZE];
pub const TYPED: &[u8] = &[
    t::APPEND, t::APPENDS, t::SETITEM, t::SETITEMS, t::ADDITEMS, t::DICT, t::STACK_GLOBAL, t::REDUCE, t::NEWOBJ, t::NEWOBJ_EX,
    t::BUILD, t::OBJ, t::DUP,
];

pub fn analyze_output(out: &[u8], want_machine: bool) -> (Result<Vec<Op>, LexError>, Option<LexError>, Option<RunOut>, [u32; 256]) {
    let ops = lexer::lex_py(out);
    let mut hist = [0u32; 256];
    let c04;
    let mut run = None;
    match &ops {
        Ok(v) => {
            for op in v {
                hist[op.code() as usize] += 1;
            }
            c04 = lexer::lex(out).err();
            if want_machine {
                run = Some(machine::run(v));
            }
        }
        Err(e) => c04 = Some(e.clone()),
    }
    (ops, c04, run, hist)
}

pub fn analyze(case: &GenCase, want: Want) -> Analysis {
    let log: SpyLog = Arc::new(Mutex::new(Vec::new()));
    let (fuel, draw_fuel) = crate::case::budgets(case.min_opcodes, case.max_opcodes);
    let cfg = TraceCfg { record_steps: want.steps, record_state: want.state, record_valid: want.valid, script: vec![], fuel: Some(fuel), draw_fuel: Some(draw_fuel) };
    let (result, trace) = case.run_traced(cfg, if want.spy { Some(&log) } else { None });
    let spy = std::mem::take(&mut *log.lock().unwrap());
    match &result {
        Ok(out) => {
            let (ops, c04, run, hist) = analyze_output(out, want.machine);
            Analysis { result, trace, spy, ops, c04, run, hist }
        }
        Err(_) => Analysis {
            result,
            trace,
            spy,
            ops: Err(LexError { pos: 0, code: None, class: "no-output", msg: "generation failed".into() }),
            c04: None,
            run: None,
            hist: [0; 256],
        },
    }
}
