pub mod lexer;
pub mod machine;
pub mod optable;
