//! Reference pickle machine: the flat-stack symbolic check of CPython `pickletools.dis`
//! (a stack in which MARK is an ordinary element, plus a stack of MARK positions) extended
//! with kind tracking. Written from the pickle format documentation / pickletools, not from
//! /repo/src.

use super::lexer::{ArgVal, Op};
use super::optable as t;
use std::collections::BTreeMap;

#[derive(Debug, Clone, Copy, PartialEq, Eq, Hash, PartialOrd, Ord)]
pub enum Kind {
    Int,
    Float,
    Bool,
    None,
    Bytes,
    Str,
    ByteArray,
    Buffer,
    List,
    Tuple,
    Dict,
    Set,
    FrozenSet,
    Mark,
    Callable,
    Instance,
    Any,
}

impl Kind {
    /// "data kinds": everything that is certainly a plain value, not a callable/object
    pub fn is_data(self) -> bool {
        !matches!(self, Kind::Callable | Kind::Instance | Kind::Any | Kind::Mark)
    }
    /// acceptable where a non-data callee / object is required
    pub fn is_nondata_object(self) -> bool {
        matches!(self, Kind::Callable | Kind::Instance | Kind::Any)
    }
    pub fn is(self, k: Kind) -> bool {
        self == k || self == Kind::Any
    }
    pub fn short(self) -> &'static str {
        match self {
            Kind::Int => "int",
            Kind::Float => "float",
            Kind::Bool => "bool",
            Kind::None => "none",
            Kind::Bytes => "bytes",
            Kind::Str => "str",
            Kind::ByteArray => "bytearray",
            Kind::Buffer => "buffer",
            Kind::List => "list",
            Kind::Tuple => "tuple",
            Kind::Dict => "dict",
            Kind::Set => "set",
            Kind::FrozenSet => "frozenset",
            Kind::Mark => "MARK",
            Kind::Callable => "callable",
            Kind::Instance => "instance",
            Kind::Any => "any",
        }
    }
}

/// A violation of the stack / memo discipline (what `pickletools.dis` rejects).
#[derive(Debug, Clone, PartialEq, Eq)]
pub struct Fault {
    pub op_index: usize,
    pub pos: usize,
    pub code: u8,
    /// stable class: underflow | no-mark | mark-lost | memo-redefine | memo-empty-stack |
    /// memo-mark | memo-undefined | stop-leftover | after-stop
    pub class: &'static str,
    pub msg: String,
}

impl std::fmt::Display for Fault {
    fn fmt(&self, f: &mut std::fmt::Formatter<'_>) -> std::fmt::Result {
        write!(f, "{} at opcode #{} {} (offset {}): {}", self.class, self.op_index, t::name_of(self.code), self.pos, self.msg)
    }
}

/// A typed opcode received an operand of the wrong kind (property C03).
#[derive(Debug, Clone, PartialEq, Eq)]
pub struct KindFault {
    pub op_index: usize,
    pub pos: usize,
    pub code: u8,
    pub class: &'static str,
    pub msg: String,
}

impl std::fmt::Display for KindFault {
    fn fmt(&self, f: &mut std::fmt::Formatter<'_>) -> std::fmt::Result {
        write!(f, "{} at opcode #{} {} (offset {}): {}", self.class, self.op_index, t::name_of(self.code), self.pos, self.msg)
    }
}

#[derive(Debug, Clone, Default)]
pub struct Machine {
    pub stack: Vec<Kind>,
    /// number of entries of pickletools' `markstack`
    pub markstack: usize,
    pub memo: BTreeMap<i128, Kind>,
    pub stopped: bool,
    pub steps: usize,
    /// statistics, never violations
    pub mark_consumed_as_operand: usize,
    pub operands_from_get: usize,
    pub operands_from_dup: usize,
    /// provenance per stack slot: 0 plain, 1 pushed by GET, 2 pushed by DUP
    prov: Vec<u8>,
}

pub struct StepOut {
    pub fault: Option<Fault>,
    pub kind_faults: Vec<KindFault>,
}

impl Machine {
    pub fn new() -> Self {
        Self::default()
    }

    fn at(&self, depth: usize) -> Option<Kind> {
        let n = self.stack.len();
        if depth < n {
            Some(self.stack[n - 1 - depth])
        } else {
            None
        }
    }
    fn note_operand(&mut self, depth: usize) {
        let n = self.stack.len();
        if depth < n {
            match self.prov[n - 1 - depth] {
                1 => self.operands_from_get += 1,
                2 => self.operands_from_dup += 1,
                _ => {}
            }
        }
    }

    /// index (from the bottom) of the topmost MARK
    fn top_mark(&self) -> Option<usize> {
        self.stack.iter().rposition(|k| *k == Kind::Mark)
    }

    /// Execute one decoded opcode. On a discipline fault the machine state is left as it was
    /// before the opcode.
    pub fn step(&mut self, op_index: usize, op: &Op) -> StepOut {
        let code = op.code();
        let info = op.info;
        let mut kf: Vec<KindFault> = Vec::new();
        let fault = |class: &'static str, msg: String| Fault { op_index, pos: op.pos, code, class, msg };
        macro_rules! bad {
            ($class:expr, $($arg:tt)*) => {
                return StepOut { fault: Some(fault($class, format!($($arg)*))), kind_faults: kf }
            };
        }
        macro_rules! kindfault {
            ($class:expr, $($arg:tt)*) => {
                kf.push(KindFault { op_index, pos: op.pos, code, class: $class, msg: format!($($arg)*) })
            };
        }
        if self.stopped {
            bad!("after-stop", "opcode after STOP");
        }
        self.steps += 1;

        // ---- kind requirements (C03), judged on the state *before* the opcode ----
        match code {
            t::APPEND => {
                if let Some(k) = self.at(1) {
                    if !k.is(Kind::List) {
                        kindfault!("append-target", "APPEND target is {}", k.short());
                    }
                    self.note_operand(1);
                }
            }
            t::SETITEM => {
                if let Some(k) = self.at(2) {
                    if !k.is(Kind::Dict) {
                        kindfault!("setitem-target", "SETITEM target is {}", k.short());
                    }
                    self.note_operand(2);
                }
            }
            t::APPENDS | t::SETITEMS | t::ADDITEMS => {
                if let Some(m) = self.top_mark() {
                    let want = match code {
                        t::APPENDS => Kind::List,
                        t::SETITEMS => Kind::Dict,
                        _ => Kind::Set,
                    };
                    if m >= 1 {
                        let k = self.stack[m - 1];
                        if !k.is(want) {
                            kindfault!("marked-target", "{} target below MARK is {}", info.name, k.short());
                        }
                        let d = self.stack.len() - m;
                        self.note_operand(d);
                    }
                    let n = self.stack.len() - m - 1;
                    if code == t::SETITEMS && n % 2 != 0 {
                        kindfault!("odd-pairs", "SETITEMS with {} operands above MARK", n);
                    }
                }
            }
            t::DICT => {
                if let Some(m) = self.top_mark() {
                    let n = self.stack.len() - m - 1;
                    if n % 2 != 0 {
                        kindfault!("odd-pairs", "DICT with {} operands above MARK", n);
                    }
                }
            }
            t::STACK_GLOBAL => {
                if let (Some(a), Some(b)) = (self.at(0), self.at(1)) {
                    if !a.is(Kind::Str) || !b.is(Kind::Str) {
                        kindfault!("stack-global-operands", "STACK_GLOBAL operands are {}, {}", b.short(), a.short());
                    }
                    self.note_operand(0);
                    self.note_operand(1);
                }
            }
            t::REDUCE | t::NEWOBJ => {
                if let (Some(args), Some(callee)) = (self.at(0), self.at(1)) {
                    if !args.is(Kind::Tuple) {
                        kindfault!("call-args", "{} argument object is {}", info.name, args.short());
                    }
                    if !callee.is_nondata_object() {
                        kindfault!("call-callee", "{} callee is {}", info.name, callee.short());
                    }
                    self.note_operand(0);
                    self.note_operand(1);
                }
            }
            t::NEWOBJ_EX => {
                if let (Some(kw), Some(args), Some(callee)) = (self.at(0), self.at(1), self.at(2)) {
                    if !kw.is(Kind::Dict) {
                        kindfault!("call-kwargs", "NEWOBJ_EX kwargs object is {}", kw.short());
                    }
                    if !args.is(Kind::Tuple) {
                        kindfault!("call-args", "NEWOBJ_EX argument object is {}", args.short());
                    }
                    if !callee.is_nondata_object() {
                        kindfault!("call-callee", "NEWOBJ_EX callee is {}", callee.short());
                    }
                    self.note_operand(0);
                    self.note_operand(1);
                    self.note_operand(2);
                }
            }
            t::BUILD => {
                if let (Some(state), Some(obj)) = (self.at(0), self.at(1)) {
                    if !(state.is(Kind::Tuple) || state.is(Kind::Dict)) {
                        kindfault!("build-state", "BUILD state is {}", state.short());
                    }
                    if !obj.is_nondata_object() {
                        kindfault!("build-object", "BUILD object is {}", obj.short());
                    }
                    self.note_operand(0);
                    self.note_operand(1);
                }
            }
            t::OBJ => {
                if let Some(m) = self.top_mark() {
                    match self.stack.get(m + 1) {
                        Some(k) if k.is_nondata_object() => {}
                        Some(k) => kindfault!("obj-callee", "OBJ callee above MARK is {}", k.short()),
                        None => kindfault!("obj-callee", "OBJ has no callee above its MARK"),
                    }
                }
            }
            t::DUP => {
                if self.at(0) == Some(Kind::Mark) {
                    kindfault!("dup-mark", "DUP duplicates a MARK");
                }
            }
            _ => {}
        }

        // ---- pickletools.dis: pop a MARK? (nothing is mutated before all checks passed) ----
        let mut numtopop = info.pops as usize;
        let mut vlen = self.stack.len(); // virtual stack length
        let mut markstack = self.markstack;
        let pop_on_mark = code == t::POP && self.stack.last() == Some(&Kind::Mark);
        if info.to_mark || pop_on_mark {
            if markstack == 0 {
                bad!("no-mark", "no MARK exists on stack");
            }
            markstack -= 1;
            match self.top_mark() {
                Some(m) => vlen = m,
                None => bad!("mark-lost", "the MARK this opcode needs was consumed as an operand earlier"),
            }
            if pop_on_mark {
                numtopop = 0;
            }
        }

        // ---- memo discipline ----
        let mut memo_store: Option<(i128, Kind)> = None;
        let mut get_kind: Option<Kind> = None;
        match code {
            t::PUT | t::BINPUT | t::LONG_BINPUT | t::MEMOIZE => {
                let idx = if code == t::MEMOIZE { self.memo.len() as i128 } else { op.int().unwrap_or(-1) };
                if self.memo.contains_key(&idx) {
                    bad!("memo-redefine", "memo key {} already defined", idx);
                }
                match if vlen > 0 { Some(self.stack[vlen - 1]) } else { None } {
                    None => bad!("memo-empty-stack", "stack is empty -- can't store into memo"),
                    Some(Kind::Mark) => bad!("memo-mark", "can't store markobject in the memo"),
                    Some(k) => memo_store = Some((idx, k)),
                }
            }
            t::GET | t::BINGET | t::LONG_BINGET => {
                let idx = match op.arg {
                    ArgVal::Int(v) => v,
                    ArgVal::Bool(b) => b as i128,
                    _ => -1,
                };
                match self.memo.get(&idx) {
                    Some(k) => get_kind = Some(*k),
                    None => bad!("memo-undefined", "memo key {} has never been stored into", idx),
                }
            }
            _ => {}
        }

        // ---- stack effect ----
        if vlen < numtopop {
            bad!("underflow", "tries to pop {} items from stack with only {} items", numtopop, vlen);
        }
        let base = vlen - numtopop;
        let popped: Vec<Kind> = self.stack[base..vlen].to_vec();
        let popped_prov: Vec<u8> = self.prov[base..vlen].to_vec();
        if !info.to_mark && !pop_on_mark {
            let marks = popped.iter().filter(|k| **k == Kind::Mark).count();
            self.mark_consumed_as_operand += marks;
        }
        let mut pushes: Vec<(Kind, u8)> = Vec::new();
        match code {
            t::INT => pushes.push((if matches!(op.arg, ArgVal::Bool(_)) { Kind::Bool } else { Kind::Int }, 0)),
            t::BININT | t::BININT1 | t::BININT2 | t::LONG | t::LONG1 | t::LONG4 => pushes.push((Kind::Int, 0)),
            t::STRING | t::BINSTRING | t::SHORT_BINSTRING => pushes.push((Kind::Any, 0)),
            t::BINBYTES | t::SHORT_BINBYTES | t::BINBYTES8 => pushes.push((Kind::Bytes, 0)),
            t::BYTEARRAY8 => pushes.push((Kind::ByteArray, 0)),
            t::NEXT_BUFFER => pushes.push((Kind::Buffer, 0)),
            t::READONLY_BUFFER => {
                let k = popped[0];
                pushes.push((if k == Kind::Mark { Kind::Any } else { k }, popped_prov[0]));
            }
            t::NONE => pushes.push((Kind::None, 0)),
            t::NEWTRUE | t::NEWFALSE => pushes.push((Kind::Bool, 0)),
            t::UNICODE | t::SHORT_BINUNICODE | t::BINUNICODE | t::BINUNICODE8 => pushes.push((Kind::Str, 0)),
            t::FLOAT | t::BINFLOAT => pushes.push((Kind::Float, 0)),
            t::EMPTY_LIST | t::LIST => pushes.push((Kind::List, 0)),
            t::APPEND => pushes.push((popped[0], popped_prov[0])),
            t::APPENDS | t::SETITEMS | t::ADDITEMS => pushes.push((popped[0], popped_prov[0])),
            t::EMPTY_TUPLE | t::TUPLE | t::TUPLE1 | t::TUPLE2 | t::TUPLE3 => pushes.push((Kind::Tuple, 0)),
            t::EMPTY_DICT | t::DICT => pushes.push((Kind::Dict, 0)),
            t::SETITEM => pushes.push((popped[0], popped_prov[0])),
            t::EMPTY_SET => pushes.push((Kind::Set, 0)),
            t::FROZENSET => pushes.push((Kind::FrozenSet, 0)),
            t::POP | t::POP_MARK => {}
            t::DUP => {
                let k = if popped[0] == Kind::Mark { Kind::Any } else { popped[0] };
                pushes.push((k, popped_prov[0]));
                pushes.push((k, 2));
            }
            t::MARK => pushes.push((Kind::Mark, 0)),
            t::GET | t::BINGET | t::LONG_BINGET => pushes.push((get_kind.unwrap(), 1)),
            t::PUT | t::BINPUT | t::LONG_BINPUT => {}
            t::MEMOIZE => pushes.push((popped[0], popped_prov[0])),
            t::EXT1 | t::EXT2 | t::EXT4 => pushes.push((Kind::Any, 0)),
            t::GLOBAL | t::STACK_GLOBAL => pushes.push((Kind::Callable, 0)),
            t::REDUCE | t::INST | t::OBJ | t::NEWOBJ | t::NEWOBJ_EX => pushes.push((Kind::Instance, 0)),
            t::BUILD => {
                let k = if popped[0] == Kind::Mark { Kind::Any } else { popped[0] };
                pushes.push((k, popped_prov[0]));
            }
            t::PROTO | t::FRAME => {}
            t::STOP => {}
            t::PERSID | t::BINPERSID => pushes.push((Kind::Any, 0)),
            _ => unreachable!("opcode table and machine disagree on {:#x}", code),
        }
        debug_assert_eq!(pushes.len(), info.pushes as usize, "{}", info.name);
        // a MARK that survives as an "object" (e.g. APPEND onto a MARK) is not a mark any more
        self.stack.truncate(base);
        self.prov.truncate(base);
        for (k, p) in pushes {
            let k = if k == Kind::Mark && code != t::MARK { Kind::Any } else { k };
            self.stack.push(k);
            self.prov.push(p);
        }
        if code == t::MARK {
            markstack += 1;
        }
        if let Some((i, k)) = memo_store {
            self.memo.insert(i, k);
        }
        self.markstack = markstack;
        if code == t::STOP {
            self.stopped = true;
            if !self.stack.is_empty() {
                let left = self.stack.len();
                return StepOut {
                    fault: Some(fault("stop-leftover", format!("stack not empty after STOP: {} objects left", left))),
                    kind_faults: kf,
                };
            }
        }
        StepOut { fault: None, kind_faults: kf }
    }

}

#[derive(Debug, Clone, Default)]
pub struct RunOut {
    pub fault: Option<Fault>,
    pub kind_faults: Vec<KindFault>,
    pub max_depth: usize,
    pub memo_size: usize,
    pub mark_consumed_as_operand: usize,
    pub operands_from_get: usize,
    pub operands_from_dup: usize,
    pub stopped: bool,
}

/// Run a decoded stream from the empty machine. Stops at the first discipline fault.
pub fn run(ops: &[Op]) -> RunOut {
    let mut m = Machine::new();
    let mut out = RunOut::default();
    for (i, op) in ops.iter().enumerate() {
        let so = m.step(i, op);
        out.kind_faults.extend(so.kind_faults);
        out.max_depth = out.max_depth.max(m.stack.len());
        if let Some(f) = so.fault {
            out.fault = Some(f);
            break;
        }
    }
    if out.fault.is_none() && !m.stopped {
        out.fault = Some(Fault { op_index: ops.len(), pos: 0, code: 0, class: "no-stop", msg: "no STOP executed".into() });
    }
    out.memo_size = m.memo.len();
    out.mark_consumed_as_operand = m.mark_consumed_as_operand;
    out.operands_from_get = m.operands_from_get;
    out.operands_from_dup = m.operands_from_dup;
    out.stopped = m.stopped;
    out
}
