//! Independent opcode-stream lexer: decodes a byte string under the standard pickle
//! opcode table with the argument readers of CPython 3.11 `pickletools`, plus the
//! domain checks property C04 spells out (EXT code >= 1, memo index >= 0, one STOP, last).

use super::optable::{self as t, Arg, OpInfo};

#[derive(Debug, Clone, PartialEq)]
pub enum ArgVal {
    None,
    /// any integer argument (memo index, ext code, proto, frame size, BININT*, INT/LONG literal
    /// that fits i128; larger literals are kept as `BigInt`)
    Int(i128),
    BigInt,
    Bool(bool),
    Float,
    /// byte / text payload (decoded length in bytes)
    Payload(usize),
    /// GLOBAL / INST module + name
    Pair,
}

#[derive(Debug, Clone, PartialEq)]
pub struct Op {
    pub info: &'static OpInfo,
    pub pos: usize,
    /// total encoded length (opcode byte + argument)
    pub len: usize,
    pub arg: ArgVal,
}

impl PartialEq for OpInfo {
    fn eq(&self, o: &Self) -> bool {
        self.code == o.code
    }
}

impl Op {
    pub fn code(&self) -> u8 {
        self.info.code
    }
    pub fn int(&self) -> Option<i128> {
        match self.arg {
            ArgVal::Int(v) => Some(v),
            ArgVal::Bool(b) => Some(b as i128),
            _ => None,
        }
    }
}

#[derive(Debug, Clone, PartialEq, Eq)]
pub struct LexError {
    pub pos: usize,
    pub code: Option<u8>,
    /// stable class of the error (used in known-finding signatures)
    pub class: &'static str,
    pub msg: String,
}

impl std::fmt::Display for LexError {
    fn fmt(&self, f: &mut std::fmt::Formatter<'_>) -> std::fmt::Result {
        write!(
            f,
            "lex error at {} (opcode {}): {}: {}",
            self.pos,
            self.code.map(t::name_of).unwrap_or("-"),
            self.class,
            self.msg
        )
    }
}

fn err(pos: usize, code: Option<u8>, class: &'static str, msg: impl Into<String>) -> LexError {
    LexError { pos, code, class, msg: msg.into() }
}

/// read up to and excluding the next '\n'; returns (line, bytes consumed incl. newline)
fn read_line(b: &[u8]) -> Option<(&[u8], usize)> {
    b.iter().position(|&c| c == b'\n').map(|i| (&b[..i], i + 1))
}

fn is_py_space(c: u8) -> bool {
    matches!(c, b' ' | b'\t' | b'\n' | b'\r' | 0x0b | 0x0c)
}

fn strip(b: &[u8]) -> &[u8] {
    let mut s = b;
    while let [f, rest @ ..] = s {
        if is_py_space(*f) {
            s = rest
        } else {
            break;
        }
    }
    while let [rest @ .., l] = s {
        if is_py_space(*l) {
            s = rest
        } else {
            break;
        }
    }
    s
}

/// digits with optional single underscores between digits (Python int()/float() grammar)
fn digits_len(b: &[u8]) -> usize {
    let mut i = 0;
    let mut last_digit = false;
    while i < b.len() {
        if b[i].is_ascii_digit() {
            last_digit = true;
            i += 1;
        } else if b[i] == b'_' && last_digit && i + 1 < b.len() && b[i + 1].is_ascii_digit() {
            last_digit = false;
            i += 1;
        } else {
            break;
        }
    }
    i
}

/// Python `int(s)` for base 10 (bytes input): whitespace, sign, digits/underscores.
pub fn parse_py_int(b: &[u8]) -> Option<ArgVal> {
    let s = strip(b);
    let (neg, rest) = match s.first() {
        Some(b'-') => (true, &s[1..]),
        Some(b'+') => (false, &s[1..]),
        _ => (false, s),
    };
    if rest.is_empty() {
        return None;
    }
    let n = digits_len(rest);
    if n != rest.len() {
        return None;
    }
    let mut v: i128 = 0;
    let mut big = false;
    for &c in rest.iter().filter(|c| **c != b'_') {
        match v.checked_mul(10).and_then(|x| x.checked_add((c - b'0') as i128)) {
            Some(x) => v = x,
            None => {
                big = true;
                break;
            }
        }
    }
    if big {
        Some(ArgVal::BigInt)
    } else {
        Some(ArgVal::Int(if neg { -v } else { v }))
    }
}

/// Python `float(s)` grammar (bytes input).
pub fn parse_py_float(b: &[u8]) -> bool {
    let s = strip(b);
    let s = match s.first() {
        Some(b'-') | Some(b'+') => &s[1..],
        _ => s,
    };
    let lower: Vec<u8> = s.iter().map(|c| c.to_ascii_lowercase()).collect();
    if lower == b"inf" || lower == b"infinity" || lower == b"nan" {
        return true;
    }
    // digitpart? [. digitpart?] [e [+-] digitpart]
    let mut i = digits_len(s);
    let int_digits = i;
    let mut frac_digits = 0;
    if i < s.len() && s[i] == b'.' {
        i += 1;
        frac_digits = digits_len(&s[i..]);
        i += frac_digits;
    }
    if int_digits == 0 && frac_digits == 0 {
        return false;
    }
    if i < s.len() && (s[i] == b'e' || s[i] == b'E') {
        i += 1;
        if i < s.len() && (s[i] == b'+' || s[i] == b'-') {
            i += 1;
        }
        let e = digits_len(&s[i..]);
        if e == 0 {
            return false;
        }
        i += e;
    }
    i == s.len()
}

/// `codecs.escape_decode(data)[0].decode("ascii")`: Ok(decoded length) or the reason it fails.
pub fn escape_decode_ascii(d: &[u8]) -> Result<usize, &'static str> {
    let mut i = 0;
    let mut n = 0;
    while i < d.len() {
        let c = d[i];
        if c != b'\\' {
            if c >= 0x80 {
                return Err("non-ASCII byte");
            }
            n += 1;
            i += 1;
            continue;
        }
        i += 1;
        if i >= d.len() {
            return Err("trailing backslash");
        }
        let e = d[i];
        i += 1;
        match e {
            b'\n' => {}
            b'\\' | b'\'' | b'"' | b'b' | b'f' | b't' | b'n' | b'r' | b'v' | b'a' => n += 1,
            b'0'..=b'7' => {
                let mut v = (e - b'0') as u32;
                let mut k = 0;
                while k < 2 && i < d.len() && (b'0'..=b'7').contains(&d[i]) {
                    v = v * 8 + (d[i] - b'0') as u32;
                    i += 1;
                    k += 1;
                }
                if v > 0o377 {
                    // CPython keeps the low byte (with a warning)
                    v &= 0xff;
                }
                if v >= 0x80 {
                    return Err("non-ASCII byte from octal escape");
                }
                n += 1;
            }
            b'x' => {
                if i + 1 < d.len() && d[i].is_ascii_hexdigit() && d[i + 1].is_ascii_hexdigit() {
                    let v = u8::from_str_radix(std::str::from_utf8(&d[i..i + 2]).unwrap(), 16).unwrap();
                    i += 2;
                    if v >= 0x80 {
                        return Err("non-ASCII byte from hex escape");
                    }
                    n += 1;
                } else {
                    return Err("invalid \\x escape");
                }
            }
            other => {
                // unknown escape: backslash and character are both kept
                if other >= 0x80 {
                    return Err("non-ASCII byte");
                }
                n += 2;
            }
        }
    }
    Ok(n)
}

/// `str(data, 'raw-unicode-escape')`
pub fn raw_unicode_escape_ok(d: &[u8]) -> Result<(), &'static str> {
    let mut i = 0;
    while i < d.len() {
        if d[i] != b'\\' {
            i += 1;
            continue;
        }
        // count the run of backslashes
        let start = i;
        while i < d.len() && d[i] == b'\\' {
            i += 1;
        }
        let run = i - start;
        if run % 2 == 1 && i < d.len() && (d[i] == b'u' || d[i] == b'U') {
            let want = if d[i] == b'u' { 4 } else { 8 };
            i += 1;
            if i + want > d.len() || !d[i..i + want].iter().all(|c| c.is_ascii_hexdigit()) {
                return Err("truncated \\u escape");
            }
            let v = u32::from_str_radix(std::str::from_utf8(&d[i..i + want]).unwrap(), 16).unwrap();
            if v > 0x10ffff {
                return Err("\\U escape out of range");
            }
            i += want;
        }
    }
    Ok(())
}

/// UTF-8 with `surrogatepass` (CPython): like UTF-8 but encoded surrogates are allowed.
pub fn utf8_surrogatepass_ok(d: &[u8]) -> bool {
    let mut i = 0;
    while i < d.len() {
        let c = d[i];
        if c < 0x80 {
            i += 1;
        } else if (0xc2..=0xdf).contains(&c) {
            if i + 1 >= d.len() || d[i + 1] & 0xc0 != 0x80 {
                return false;
            }
            i += 2;
        } else if (0xe0..=0xef).contains(&c) {
            if i + 2 >= d.len() || d[i + 1] & 0xc0 != 0x80 || d[i + 2] & 0xc0 != 0x80 {
                return false;
            }
            if c == 0xe0 && d[i + 1] < 0xa0 {
                return false;
            }
            i += 3;
        } else if (0xf0..=0xf4).contains(&c) {
            if i + 3 >= d.len()
                || d[i + 1] & 0xc0 != 0x80
                || d[i + 2] & 0xc0 != 0x80
                || d[i + 3] & 0xc0 != 0x80
            {
                return false;
            }
            if c == 0xf0 && d[i + 1] < 0x90 {
                return false;
            }
            if c == 0xf4 && d[i + 1] > 0x8f {
                return false;
            }
            i += 4;
        } else {
            return false;
        }
    }
    true
}

fn le(b: &[u8]) -> u64 {
    let mut v = 0u64;
    for (i, &x) in b.iter().enumerate() {
        v |= (x as u64) << (8 * i);
    }
    v
}

/// decode one opcode at `pos`
pub fn lex_one(data: &[u8], pos: usize) -> Result<Op, LexError> {
    let code = *data.get(pos).ok_or_else(|| err(pos, None, "eof", "no opcode byte"))?;
    let info = t::lookup(code).ok_or_else(|| err(pos, Some(code), "unknown-opcode", format!("byte {:#04x}", code)))?;
    let rest = &data[pos + 1..];
    let c = Some(code);
    let need = |n: usize| -> Result<&[u8], LexError> {
        rest.get(..n).ok_or_else(|| err(pos, c, "truncated", format!("needs {} argument bytes, {} left", n, rest.len())))
    };
    let line = |off: usize| -> Result<(&[u8], usize), LexError> {
        read_line(&rest[off..]).ok_or_else(|| err(pos, c, "no-newline", "newline-terminated argument is not terminated"))
    };
    let counted = |lenbytes: usize, signed: bool| -> Result<(&[u8], usize), LexError> {
        let lb = need(lenbytes)?;
        let n = le(lb);
        if signed && lenbytes == 4 && (n as u32 as i32) < 0 {
            return Err(err(pos, c, "negative-length", format!("length {}", n as u32 as i32)));
        }
        if lenbytes == 8 && n > i64::MAX as u64 {
            return Err(err(pos, c, "length-overflow", format!("length {}", n)));
        }
        let n = n as usize;
        let payload = rest
            .get(lenbytes..)
            .and_then(|r| r.get(..n))
            .ok_or_else(|| err(pos, c, "short-payload", format!("length prefix {} exceeds the {} bytes left", n, rest.len().saturating_sub(lenbytes))))?;
        Ok((payload, lenbytes + n))
    };
    let (arg, alen) = match info.arg {
        Arg::None => (ArgVal::None, 0),
        Arg::DecimalNlShort => {
            let (l, n) = line(0)?;
            let v = if l == b"00" {
                ArgVal::Bool(false)
            } else if l == b"01" {
                ArgVal::Bool(true)
            } else {
                parse_py_int(l).ok_or_else(|| err(pos, c, "bad-decimal", format!("{:?}", String::from_utf8_lossy(l))))?
            };
            (v, n)
        }
        Arg::DecimalNlLong => {
            let (l, n) = line(0)?;
            let l2 = if l.last() == Some(&b'L') { &l[..l.len() - 1] } else { l };
            let v = parse_py_int(l2).ok_or_else(|| err(pos, c, "bad-decimal", format!("{:?}", String::from_utf8_lossy(l))))?;
            (v, n)
        }
        Arg::FloatNl => {
            let (l, n) = line(0)?;
            if !parse_py_float(l) {
                return Err(err(pos, c, "bad-float", format!("{:?}", String::from_utf8_lossy(l))));
            }
            (ArgVal::Float, n)
        }
        Arg::StringNl => {
            let (l, n) = line(0)?;
            let q = match l.first() {
                Some(b'"') => b'"',
                Some(b'\'') => b'\'',
                _ => return Err(err(pos, c, "bad-quote", "no string quotes")),
            };
            if l.last() != Some(&q) {
                return Err(err(pos, c, "bad-quote", "closing quote missing"));
            }
            let inner = if l.len() >= 2 { &l[1..l.len() - 1] } else { &l[0..0] };
            let dl = escape_decode_ascii(inner).map_err(|m| err(pos, c, "bad-escape", m))?;
            (ArgVal::Payload(dl), n)
        }
        Arg::StringNlNoEscape => {
            let (l, n) = line(0)?;
            let dl = escape_decode_ascii(l).map_err(|m| err(pos, c, "bad-escape", m))?;
            (ArgVal::Payload(dl), n)
        }
        Arg::StringNlNoEscapePair => {
            let (l1, n1) = line(0)?;
            escape_decode_ascii(l1).map_err(|m| err(pos, c, "bad-escape", m))?;
            let (l2, n2) = line(n1)?;
            escape_decode_ascii(l2).map_err(|m| err(pos, c, "bad-escape", m))?;
            (ArgVal::Pair, n1 + n2)
        }
        Arg::UnicodeStringNl => {
            let (l, n) = line(0)?;
            raw_unicode_escape_ok(l).map_err(|m| err(pos, c, "bad-escape", m))?;
            (ArgVal::Payload(l.len()), n)
        }
        Arg::Int4 => {
            let b = need(4)?;
            (ArgVal::Int(le(b) as u32 as i32 as i128), 4)
        }
        Arg::UInt1 => (ArgVal::Int(need(1)?[0] as i128), 1),
        Arg::UInt2 => (ArgVal::Int(le(need(2)?) as i128), 2),
        Arg::UInt4 => (ArgVal::Int(le(need(4)?) as i128), 4),
        Arg::UInt8 => (ArgVal::Int(le(need(8)?) as i128), 8),
        Arg::Float8 => {
            need(8)?;
            (ArgVal::Float, 8)
        }
        Arg::Long1 => {
            let (p, n) = counted(1, false)?;
            (ArgVal::Payload(p.len()), n)
        }
        Arg::Long4 => {
            let (p, n) = counted(4, true)?;
            (ArgVal::Payload(p.len()), n)
        }
        Arg::String1 | Arg::Bytes1 => {
            let (p, n) = counted(1, false)?;
            (ArgVal::Payload(p.len()), n)
        }
        Arg::String4 => {
            let (p, n) = counted(4, true)?;
            (ArgVal::Payload(p.len()), n)
        }
        Arg::Bytes4 => {
            let (p, n) = counted(4, false)?;
            (ArgVal::Payload(p.len()), n)
        }
        Arg::Bytes8 | Arg::ByteArray8 => {
            let (p, n) = counted(8, false)?;
            (ArgVal::Payload(p.len()), n)
        }
        Arg::UnicodeString1 | Arg::UnicodeString4 | Arg::UnicodeString8 => {
            let lb = match info.arg {
                Arg::UnicodeString1 => 1,
                Arg::UnicodeString4 => 4,
                _ => 8,
            };
            let (p, n) = counted(lb, false)?;
            if !utf8_surrogatepass_ok(p) {
                return Err(err(pos, c, "bad-utf8", "payload is not UTF-8"));
            }
            (ArgVal::Payload(p.len()), n)
        }
    };
    Ok(Op { info, pos, len: 1 + alen, arg })
}

/// domain checks property C04 adds to pickletools' readers, for one decoded opcode
pub fn c04_domain(op: &Op) -> Option<LexError> {
    let c = Some(op.code());
    match op.code() {
        t::EXT1 | t::EXT2 | t::EXT4 => {
            if let ArgVal::Int(v) = op.arg {
                if v < 1 {
                    return Some(err(op.pos, c, "ext-code", format!("extension code {} is not >= 1", v)));
                }
            }
        }
        t::GET | t::PUT => {
            if let ArgVal::Int(v) = op.arg {
                if v < 0 {
                    return Some(err(op.pos, c, "negative-memo-index", format!("memo index {}", v)));
                }
            }
        }
        _ => {}
    }
    None
}

/// Mirrors `pickletools.genops`: decodes up to and including the first STOP and ignores what
/// follows; no checks beyond pickletools' argument readers.
pub fn lex_py(data: &[u8]) -> Result<Vec<Op>, LexError> {
    let mut ops = Vec::new();
    let mut pos = 0;
    while pos < data.len() {
        let op = lex_one(data, pos)?;
        pos += op.len;
        let stop = op.code() == t::STOP;
        ops.push(op);
        if stop {
            return Ok(ops);
        }
    }
    Err(err(data.len(), None, "no-stop", "stream ends without STOP"))
}

/// C04: the bytes decode completely, every argument is in its domain, there is exactly one
/// STOP and it is the last byte.
pub fn lex(data: &[u8]) -> Result<Vec<Op>, LexError> {
    let ops = lex_py(data)?;
    for op in &ops {
        if let Some(e) = c04_domain(op) {
            return Err(e);
        }
    }
    let last = ops.last().expect("lex_py returns at least STOP");
    let end = last.pos + last.len;
    if end != data.len() {
        return Err(err(last.pos, Some(t::STOP), "stop-not-last", format!("{} bytes follow STOP", data.len() - end)));
    }
    Ok(ops)
}

#[cfg(test)]
mod tests {
    use super::*;
    #[test]
    fn ints() {
        assert_eq!(parse_py_int(b"12"), Some(ArgVal::Int(12)));
        assert_eq!(parse_py_int(b" -1_0 "), Some(ArgVal::Int(-10)));
        assert_eq!(parse_py_int(b"1__0"), None);
        assert_eq!(parse_py_int(b""), None);
        assert_eq!(parse_py_int(b"12L"), None);
    }
    #[test]
    fn floats() {
        for s in ["1", "1.", ".5", "1e5", "-inf", "NaN", "1_0.5e-3", "Infinity"] {
            assert!(parse_py_float(s.as_bytes()), "{}", s);
        }
        for s in ["", ".", "e5", "1e", "1.5.5", "abc", "--1"] {
            assert!(!parse_py_float(s.as_bytes()), "{}", s);
        }
    }
    #[test]
    fn simple() {
        let ops = lex(b"\x80\x02K\x01.").unwrap();
        assert_eq!(ops.len(), 3);
        assert!(lex(b"K\x01..").is_err());
        assert!(lex(b"S'a\\'\n.").is_err()); // closing quote is escaped -> trailing backslash? no: inner = a\ -> trailing backslash
        assert!(lex(b"S'a\\\\'\n.").is_ok());
        assert!(lex(b"\x84\xff\xff\xff\xff.").is_err());
    }
}
