//! Opcode table of the pickle format, transcribed by hand from CPython's
//! `pickletools.opcodes` (3.11). Independent of /repo/src/opcodes.rs on purpose;
//! `py/dump_optable.py` compares it field by field with the installed CPython at setup.

#[derive(Debug, Clone, Copy, PartialEq, Eq)]
pub enum Arg {
    None,
    DecimalNlShort,
    DecimalNlLong,
    StringNl,
    StringNlNoEscape,
    StringNlNoEscapePair,
    UnicodeStringNl,
    FloatNl,
    Int4,
    UInt1,
    UInt2,
    UInt4,
    UInt8,
    Float8,
    Long1,
    Long4,
    String1,
    String4,
    Bytes1,
    Bytes4,
    Bytes8,
    ByteArray8,
    UnicodeString1,
    UnicodeString4,
    UnicodeString8,
}

impl Arg {
    pub fn pyname(self) -> &'static str {
        match self {
            Arg::None => "None",
            Arg::DecimalNlShort => "decimalnl_short",
            Arg::DecimalNlLong => "decimalnl_long",
            Arg::StringNl => "stringnl",
            Arg::StringNlNoEscape => "stringnl_noescape",
            Arg::StringNlNoEscapePair => "stringnl_noescape_pair",
            Arg::UnicodeStringNl => "unicodestringnl",
            Arg::FloatNl => "floatnl",
            Arg::Int4 => "int4",
            Arg::UInt1 => "uint1",
            Arg::UInt2 => "uint2",
            Arg::UInt4 => "uint4",
            Arg::UInt8 => "uint8",
            Arg::Float8 => "float8",
            Arg::Long1 => "long1",
            Arg::Long4 => "long4",
            Arg::String1 => "string1",
            Arg::String4 => "string4",
            Arg::Bytes1 => "bytes1",
            Arg::Bytes4 => "bytes4",
            Arg::Bytes8 => "bytes8",
            Arg::ByteArray8 => "bytearray8",
            Arg::UnicodeString1 => "unicodestring1",
            Arg::UnicodeString4 => "unicodestring4",
            Arg::UnicodeString8 => "unicodestring8",
        }
    }
}

#[derive(Debug, Clone, Copy)]
pub struct OpInfo {
    pub code: u8,
    pub name: &'static str,
    pub proto: u8,
    pub arg: Arg,
    /// number of fixed operands popped (for MARK consumers: operands popped *below* the MARK)
    pub pops: u8,
    /// the opcode pops everything down to and including the topmost MARK first
    pub to_mark: bool,
    /// number of objects pushed
    pub pushes: u8,
}

macro_rules! op {
    ($code:expr, $name:expr, $proto:expr, $arg:ident, $pops:expr, $tm:expr, $pushes:expr) => {
        OpInfo { code: $code, name: $name, proto: $proto, arg: Arg::$arg, pops: $pops, to_mark: $tm, pushes: $pushes }
    };
}

pub const INT: u8 = b'I';
pub const BININT: u8 = b'J';
pub const BININT1: u8 = b'K';
pub const BININT2: u8 = b'M';
pub const LONG: u8 = b'L';
pub const LONG1: u8 = 0x8a;
pub const LONG4: u8 = 0x8b;
pub const STRING: u8 = b'S';
pub const BINSTRING: u8 = b'T';
pub const SHORT_BINSTRING: u8 = b'U';
pub const BINBYTES: u8 = b'B';
pub const SHORT_BINBYTES: u8 = b'C';
pub const BINBYTES8: u8 = 0x8e;
pub const BYTEARRAY8: u8 = 0x96;
pub const NEXT_BUFFER: u8 = 0x97;
pub const READONLY_BUFFER: u8 = 0x98;
pub const NONE: u8 = b'N';
pub const NEWTRUE: u8 = 0x88;
pub const NEWFALSE: u8 = 0x89;
pub const UNICODE: u8 = b'V';
pub const SHORT_BINUNICODE: u8 = 0x8c;
pub const BINUNICODE: u8 = b'X';
pub const BINUNICODE8: u8 = 0x8d;
pub const FLOAT: u8 = b'F';
pub const BINFLOAT: u8 = b'G';
pub const EMPTY_LIST: u8 = b']';
pub const APPEND: u8 = b'a';
pub const APPENDS: u8 = b'e';
pub const LIST: u8 = b'l';
pub const EMPTY_TUPLE: u8 = b')';
pub const TUPLE: u8 = b't';
pub const TUPLE1: u8 = 0x85;
pub const TUPLE2: u8 = 0x86;
pub const TUPLE3: u8 = 0x87;
pub const EMPTY_DICT: u8 = b'}';
pub const DICT: u8 = b'd';
pub const SETITEM: u8 = b's';
pub const SETITEMS: u8 = b'u';
pub const EMPTY_SET: u8 = 0x8f;
pub const ADDITEMS: u8 = 0x90;
pub const FROZENSET: u8 = 0x91;
pub const POP: u8 = b'0';
pub const DUP: u8 = b'2';
pub const MARK: u8 = b'(';
pub const POP_MARK: u8 = b'1';
pub const GET: u8 = b'g';
pub const BINGET: u8 = b'h';
pub const LONG_BINGET: u8 = b'j';
pub const PUT: u8 = b'p';
pub const BINPUT: u8 = b'q';
pub const LONG_BINPUT: u8 = b'r';
pub const MEMOIZE: u8 = 0x94;
pub const EXT1: u8 = 0x82;
pub const EXT2: u8 = 0x83;
pub const EXT4: u8 = 0x84;
pub const GLOBAL: u8 = b'c';
pub const STACK_GLOBAL: u8 = 0x93;
pub const REDUCE: u8 = b'R';
pub const BUILD: u8 = b'b';
pub const INST: u8 = b'i';
pub const OBJ: u8 = b'o';
pub const NEWOBJ: u8 = 0x81;
pub const NEWOBJ_EX: u8 = 0x92;
pub const PROTO: u8 = 0x80;
pub const STOP: u8 = b'.';
pub const FRAME: u8 = 0x95;
pub const PERSID: u8 = b'P';
pub const BINPERSID: u8 = b'Q';

pub static OPCODES: &[OpInfo] = &[
    op!(INT, "INT", 0, DecimalNlShort, 0, false, 1),
    op!(BININT, "BININT", 1, Int4, 0, false, 1),
    op!(BININT1, "BININT1", 1, UInt1, 0, false, 1),
    op!(BININT2, "BININT2", 1, UInt2, 0, false, 1),
    op!(LONG, "LONG", 0, DecimalNlLong, 0, false, 1),
    op!(LONG1, "LONG1", 2, Long1, 0, false, 1),
    op!(LONG4, "LONG4", 2, Long4, 0, false, 1),
    op!(STRING, "STRING", 0, StringNl, 0, false, 1),
    op!(BINSTRING, "BINSTRING", 1, String4, 0, false, 1),
    op!(SHORT_BINSTRING, "SHORT_BINSTRING", 1, String1, 0, false, 1),
    op!(BINBYTES, "BINBYTES", 3, Bytes4, 0, false, 1),
    op!(SHORT_BINBYTES, "SHORT_BINBYTES", 3, Bytes1, 0, false, 1),
    op!(BINBYTES8, "BINBYTES8", 4, Bytes8, 0, false, 1),
    op!(BYTEARRAY8, "BYTEARRAY8", 5, ByteArray8, 0, false, 1),
    op!(NEXT_BUFFER, "NEXT_BUFFER", 5, None, 0, false, 1),
    op!(READONLY_BUFFER, "READONLY_BUFFER", 5, None, 1, false, 1),
    op!(NONE, "NONE", 0, None, 0, false, 1),
    op!(NEWTRUE, "NEWTRUE", 2, None, 0, false, 1),
    op!(NEWFALSE, "NEWFALSE", 2, None, 0, false, 1),
    op!(UNICODE, "UNICODE", 0, UnicodeStringNl, 0, false, 1),
    op!(SHORT_BINUNICODE, "SHORT_BINUNICODE", 4, UnicodeString1, 0, false, 1),
    op!(BINUNICODE, "BINUNICODE", 1, UnicodeString4, 0, false, 1),
    op!(BINUNICODE8, "BINUNICODE8", 4, UnicodeString8, 0, false, 1),
    op!(FLOAT, "FLOAT", 0, FloatNl, 0, false, 1),
    op!(BINFLOAT, "BINFLOAT", 1, Float8, 0, false, 1),
    op!(EMPTY_LIST, "EMPTY_LIST", 1, None, 0, false, 1),
    op!(APPEND, "APPEND", 0, None, 2, false, 1),
    op!(APPENDS, "APPENDS", 1, None, 1, true, 1),
    op!(LIST, "LIST", 0, None, 0, true, 1),
    op!(EMPTY_TUPLE, "EMPTY_TUPLE", 1, None, 0, false, 1),
    op!(TUPLE, "TUPLE", 0, None, 0, true, 1),
    op!(TUPLE1, "TUPLE1", 2, None, 1, false, 1),
    op!(TUPLE2, "TUPLE2", 2, None, 2, false, 1),
    op!(TUPLE3, "TUPLE3", 2, None, 3, false, 1),
    op!(EMPTY_DICT, "EMPTY_DICT", 1, None, 0, false, 1),
    op!(DICT, "DICT", 0, None, 0, true, 1),
    op!(SETITEM, "SETITEM", 0, None, 3, false, 1),
    op!(SETITEMS, "SETITEMS", 1, None, 1, true, 1),
    op!(EMPTY_SET, "EMPTY_SET", 4, None, 0, false, 1),
    op!(ADDITEMS, "ADDITEMS", 4, None, 1, true, 1),
    op!(FROZENSET, "FROZENSET", 4, None, 0, true, 1),
    op!(POP, "POP", 0, None, 1, false, 0),
    op!(DUP, "DUP", 0, None, 1, false, 2),
    op!(MARK, "MARK", 0, None, 0, false, 1),
    op!(POP_MARK, "POP_MARK", 1, None, 0, true, 0),
    op!(GET, "GET", 0, DecimalNlShort, 0, false, 1),
    op!(BINGET, "BINGET", 1, UInt1, 0, false, 1),
    op!(LONG_BINGET, "LONG_BINGET", 1, UInt4, 0, false, 1),
    op!(PUT, "PUT", 0, DecimalNlShort, 0, false, 0),
    op!(BINPUT, "BINPUT", 1, UInt1, 0, false, 0),
    op!(LONG_BINPUT, "LONG_BINPUT", 1, UInt4, 0, false, 0),
    op!(MEMOIZE, "MEMOIZE", 4, None, 1, false, 1),
    op!(EXT1, "EXT1", 2, UInt1, 0, false, 1),
    op!(EXT2, "EXT2", 2, UInt2, 0, false, 1),
    op!(EXT4, "EXT4", 2, Int4, 0, false, 1),
    op!(GLOBAL, "GLOBAL", 0, StringNlNoEscapePair, 0, false, 1),
    op!(STACK_GLOBAL, "STACK_GLOBAL", 4, None, 2, false, 1),
    op!(REDUCE, "REDUCE", 0, None, 2, false, 1),
    op!(BUILD, "BUILD", 0, None, 2, false, 1),
    op!(INST, "INST", 0, StringNlNoEscapePair, 0, true, 1),
    op!(OBJ, "OBJ", 1, None, 0, true, 1),
    op!(NEWOBJ, "NEWOBJ", 2, None, 2, false, 1),
    op!(NEWOBJ_EX, "NEWOBJ_EX", 4, None, 3, false, 1),
    op!(PROTO, "PROTO", 2, UInt1, 0, false, 0),
    op!(STOP, "STOP", 0, None, 1, false, 0),
    op!(FRAME, "FRAME", 4, UInt8, 0, false, 0),
    op!(PERSID, "PERSID", 0, StringNlNoEscape, 0, false, 1),
    op!(BINPERSID, "BINPERSID", 1, None, 1, false, 1),
];

pub fn lookup(code: u8) -> Option<&'static OpInfo> {
    static TABLE: std::sync::OnceLock<[Option<&'static OpInfo>; 256]> = std::sync::OnceLock::new();
    let t = TABLE.get_or_init(|| {
        let mut t: [Option<&'static OpInfo>; 256] = [None; 256];
        for o in OPCODES {
            assert!(t[o.code as usize].is_none(), "duplicate opcode {:#x}", o.code);
            t[o.code as usize] = Some(o);
        }
        t
    });
    t[code as usize]
}

pub fn name_of(code: u8) -> &'static str {
    lookup(code).map(|o| o.name).unwrap_or("?")
}

/// table dump in the format of py/dump_optable.py (one line per opcode)
pub fn dump() -> String {
    let mut s = String::new();
    for o in OPCODES {
        s.push_str(&format!(
            "{:02x} {} {} {} {} {} {}\n",
            o.code, o.name, o.proto, o.arg.pyname(), o.pops, o.to_mark as u8, o.pushes
        ));
    }
    s
}
