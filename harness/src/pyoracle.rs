//! CPython differential: `py/dis_batch.py` (pickletools.genops + pickletools.dis) over a batch.

use crate::runner::Ctx;
use crate::util;
use std::process::Command;

#[derive(Debug, Clone)]
pub struct PyVerdict {
    pub genops: String,
    pub dis: String,
}

impl PyVerdict {
    pub fn genops_ok(&self) -> bool {
        self.genops == "ok"
    }
    pub fn dis_ok(&self) -> bool {
        self.dis == "ok"
    }
}

pub fn python() -> String {
    std::env::var("VERIF_PYTHON").unwrap_or_else(|_| "python3".to_string())
}

pub fn dis_batch(ctx: &Ctx, outputs: &[Vec<u8>]) -> Result<Vec<PyVerdict>, String> {
    if outputs.is_empty() {
        return Ok(vec![]);
    }
    let work = format!("{}/work", ctx.verif_dir);
    std::fs::create_dir_all(&work).map_err(|e| e.to_string())?;
    let path = format!("{}/pyin-{}-{}.txt", work, ctx.prop, std::process::id());
    let mut s = String::new();
    for o in outputs {
        s.push_str(&util::hex(o));
        s.push('\n');
    }
    std::fs::write(&path, s).map_err(|e| e.to_string())?;
    let out = Command::new(python())
        .arg(format!("{}/py/dis_batch.py", ctx.verif_dir))
        .arg(&path)
        .output()
        .map_err(|e| format!("cannot run python: {}", e))?;
    let _ = std::fs::remove_file(&path);
    if !out.status.success() {
        return Err(format!("dis_batch.py failed: {}", String::from_utf8_lossy(&out.stderr)));
    }
    let txt = String::from_utf8_lossy(&out.stdout);
    let v: Vec<PyVerdict> = txt
        .lines()
        .filter(|l| !l.is_empty())
        .map(|l| {
            let mut it = l.splitn(2, ' ');
            PyVerdict { genops: it.next().unwrap_or("").to_string(), dis: it.next().unwrap_or("").to_string() }
        })
        .collect();
    if v.len() != outputs.len() {
        return Err(format!("dis_batch.py returned {} verdicts for {} inputs", v.len(), outputs.len()));
    }
    Ok(v)
}
