//! Coverage-guided campaigns: run a libFuzzer target of /verif/fuzz (cargo-fuzz, ASan) for a
//! fixed number of executions and turn what it reports into an `Outcome` contribution.

use crate::fuzzglue;
use crate::runner::{Ctx, Fail, Outcome, Violation};
use serde_json::{json, Value};
use std::process::Command;

pub struct Campaign {
    pub target: &'static str,
    pub runs_per_job: u64,
    pub jobs: u32,
    pub max_len: u32,
    pub detect_leaks: bool,
}

fn copy_dir(from: &str, to: &str) {
    if let Ok(rd) = std::fs::read_dir(from) {
        for e in rd.filter_map(|e| e.ok()) {
            let _ = std::fs::copy(e.path(), format!("{}/{}", to, e.file_name().to_string_lossy()));
        }
    }
}

/// Runs the campaign. Violations reported by the in-target oracles (or sanitizer findings
/// attributable to a property) are stored in `out`; anything else that stops the fuzzer makes
/// the outcome inconclusive.
pub fn run(ctx: &Ctx, out: &mut Outcome, c: &Campaign) {
    // a campaign that stops without anything to show (a job of the fuzzer killed from outside, a build hiccup) is
    // started once more on a fresh corpus before it counts
    if run_once(ctx, out, c, 0) {
        let _ = run_once(ctx, out, c, 1);
    }
}

/// returns true when the campaign stopped abnormally without a finding and should be repeated
fn run_once(ctx: &Ctx, out: &mut Outcome, c: &Campaign, attempt: u32) -> bool {
    if out.failed() {
        return false;
    }
    let work = format!("{}/target/fuzz-run/{}-{}", ctx.verif_dir, c.target, std::process::id());
    let corpus = format!("{}/corpus", work);
    let arts = format!("{}/artifacts/", work);
    let _ = std::fs::remove_dir_all(&work);
    let _ = std::fs::create_dir_all(&corpus);
    let _ = std::fs::create_dir_all(&arts);
    copy_dir(&format!("{}/fuzz/seeds/{}", ctx.verif_dir, c.target), &corpus);
    let seed = (ctx.seed % 0x7fff_fffe) + 1; // libFuzzer: 0 means "random"
    let mut cmd = Command::new("cargo");
    cmd.args(["+nightly", "fuzz", "run", "--fuzz-dir", &format!("{}/fuzz", ctx.verif_dir), c.target, &corpus, "--"])
        .arg(format!("-runs={}", c.runs_per_job))
        .arg(format!("-seed={}", seed))
        .arg("-len_control=0")
        .arg(format!("-max_len={}", c.max_len))
        .arg(format!("-detect_leaks={}", c.detect_leaks as u8))
        .arg("-print_final_stats=1")
        .arg(format!("-artifact_prefix={}", arts))
        .arg(format!("-jobs={}", c.jobs))
        .arg(format!("-workers={}", c.jobs))
        .env("CARGO_NET_OFFLINE", "true")
        .env("VERIF_DIR", &ctx.verif_dir)
        .env("VERIF_SEED", ctx.seed.to_string())
        .current_dir(&work);
    let res = match cmd.output() {
        Ok(o) => o,
        Err(e) => {
            out.inconclusive = Some(format!("cannot run cargo fuzz: {}", e));
            return false;
        }
    };
    // with -jobs the per-job output goes to fuzz-<n>.log in the working directory
    let mut logs = String::from_utf8_lossy(&res.stdout).to_string();
    logs.push_str(&String::from_utf8_lossy(&res.stderr));
    if let Ok(rd) = std::fs::read_dir(&work) {
        for e in rd.filter_map(|e| e.ok()) {
            let n = e.file_name().to_string_lossy().to_string();
            if n.starts_with("fuzz-") && n.ends_with(".log") {
                logs.push_str(&std::fs::read_to_string(e.path()).unwrap_or_default());
            }
        }
    }
    let execs: u64 = logs.lines().filter_map(|l| l.strip_prefix("stat::number_of_executed_units:")).filter_map(|v| v.trim().parse::<u64>().ok()).sum();
    let cov: u64 = logs.lines().filter_map(|l| l.split(" cov: ").nth(1)).filter_map(|r| r.split_whitespace().next()).filter_map(|v| v.parse::<u64>().ok()).max().unwrap_or(0);
    out.stats.evaluations += execs;
    out.stats.add(&format!("libFuzzer target {}: executions", c.target), execs);
    out.extra.insert(format!("libfuzzer_{}", c.target), json!({"executions": execs, "jobs": c.jobs, "max_len": c.max_len, "edge_coverage_max": cov, "seed": seed}));
    // in-target semantic oracle fired?
    if let Some(line) = logs.lines().find(|l| l.starts_with("VIOLATION property=")) {
        let prop = line.split("property=").nth(1).and_then(|r| r.split_whitespace().next()).unwrap_or("");
        let path = line.split("replay=").nth(1).unwrap_or("").trim();
        let body: Value = std::fs::read_to_string(path).ok().and_then(|t| serde_json::from_str(&t).ok()).unwrap_or(Value::Null);
        let fail = Fail::new(body["signature"].as_str().unwrap_or("fuzz"), format!("[libFuzzer target {}] {}", c.target, body["message"].as_str().unwrap_or(line)));
        if prop == ctx.prop {
            let _ = std::fs::remove_file(path); // finish() writes it again under this run's name
            out.violation = Some(Violation { fail, case: body["case"].clone() });
        } else {
            // a different property was violated on the way: its own check decides it; note it
            out.stats.label(&format!("libFuzzer stopped on a violation of {} (decided by that property's check)", prop));
            let _ = std::fs::remove_file(path);
            out.inconclusive = Some(format!("the {} campaign stopped early on a violation of {} ({}); run ./check {} for the verdict", c.target, prop, fail.sig, prop));
        }
        let _ = std::fs::remove_dir_all(&work);
        return false;
    }
    // sanitizer findings
    let artifact = std::fs::read_dir(&arts).ok().and_then(|rd| rd.filter_map(|e| e.ok()).map(|e| e.path()).next());
    if logs.contains("LeakSanitizer: detected memory leaks") {
        if let Some(a) = &artifact {
            let data = std::fs::read(a).unwrap_or_default();
            let sc = fuzzglue::decode_reuse(&data);
            let f = Fail::new("leak", format!("[libFuzzer target {}] LeakSanitizer: detected memory leaks", c.target));
            if ctx.prop == "C14" {
                out.violation = Some(Violation { fail: f, case: serde_json::to_value(&sc).unwrap() });
            } else {
                out.inconclusive = Some("the campaign stopped on a memory leak (C14 decides)".into());
            }
            let _ = std::fs::remove_dir_all(&work);
            return false;
        }
    }
    if !res.status.success() || artifact.is_some() {
        let tail: String = logs.lines().rev().take(25).collect::<Vec<_>>().into_iter().rev().collect::<Vec<_>>().join(" | ");
        if c.target == "gen_all" && ctx.prop == "C09" {
            if let Some(a) = &artifact {
                let data = std::fs::read(a).unwrap_or_default();
                let case = crate::case::gencase_from_bytes(&data, crate::case::UnsafeMode::Draw);
                out.violation = Some(Violation { fail: Fail::new("process-death", format!("[libFuzzer target gen_all] the process died: {}", tail.chars().take(400).collect::<String>())), case: serde_json::to_value(&case).unwrap() });
                let _ = std::fs::remove_dir_all(&work);
                return false;
            }
        }
        if attempt == 0 {
            let _ = std::fs::remove_dir_all(&work);
            out.stats.label(&format!("libFuzzer target {}: first attempt stopped abnormally, repeated", c.target));
            return true;
        }
        match &artifact {
            // an input the fuzzer saved (timeout-, oom-, crash- file): something specific was slow or died
            Some(a) => out.inconclusive = Some(format!("libFuzzer target {} stopped on {}: {}", c.target, a.file_name().map(|n| n.to_string_lossy().to_string()).unwrap_or_default(), tail.chars().take(500).collect::<String>())),
            // nothing saved, twice: the campaign could not be completed here; everything that was explored held
            None => out.assumptions.push(format!("the libFuzzer campaign {} did not run to completion on this machine (no input was saved; exit status {}): its executions are counted, its absence is not a verdict", c.target, res.status)),
        }
    }
    let _ = std::fs::remove_dir_all(&work);
    false
}
