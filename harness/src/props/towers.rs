//! C09, scripted towers: programs of the shape `pre a^n mid b^m` (one- and two-opcode words repeated tens of
//! thousands of times), the shapes that drive the simulated machine into its deepest states - nesting
//! depth n, stack depth n, memo size n - which uniformly random choices practically never reach.
//!
//! Stage 1 (in this process, small n): every shape over the protocol's opcode table is tried through the
//! scripted-choice hook; a shape is kept when the generation loop followed the whole script (every
//! scripted opcode was a candidate when its turn came). Stage 2 (child processes, 2 MiB thread stacks,
//! optimised and unoptimised build): the kept shapes are scaled up. Oracle as everywhere in C09:
//! Ok(non-empty), no panic, no process death - for the scripted call, for a second call on the same
//! generator (the reset releases the deep objects) and for the drop of the generator.

use crate::case::{self, Entropy, Failure};
use crate::props::tree::ScriptCase;
use crate::refpvm::optable as t;
use crate::runner::{Ctx, Fail, Outcome, Stats, Violation, THREADS};
use crate::util;
use pickle_fuzzer::verif::{self, TraceCfg};
use serde::{Deserialize, Serialize};
use serde_json::{json, Value};
use std::collections::HashSet;
use std::io::{Seek, SeekFrom, Write};
use std::process::{Command, Stdio};
use std::sync::atomic::{AtomicUsize, Ordering};
use std::sync::Mutex;
use std::time::Duration;

#[derive(Clone, Debug, Serialize, Deserialize, PartialEq, Eq, Hash)]
pub struct Tower {
    pub protocol: u8,
    #[serde(with = "crate::case::hexbytes")]
    pub pre: Vec<u8>,
    #[serde(with = "crate::case::hexbytes")]
    pub a: Vec<u8>,
    pub na: usize,
    #[serde(with = "crate::case::hexbytes")]
    pub mid: Vec<u8>,
    #[serde(with = "crate::case::hexbytes")]
    pub b: Vec<u8>,
    pub nb: usize,
}

impl Tower {
    pub fn script(&self) -> Vec<u8> {
        let mut s = self.pre.clone();
        for _ in 0..self.na {
            s.extend_from_slice(&self.a);
        }
        s.extend_from_slice(&self.mid);
        for _ in 0..self.nb {
            s.extend_from_slice(&self.b);
        }
        s
    }
    pub fn scaled(&self, n: usize) -> Tower {
        let mut t = self.clone();
        t.na = n;
        if !t.b.is_empty() {
            t.nb = n;
        }
        t
    }
    pub fn script_case(&self) -> ScriptCase {
        ScriptCase { protocol: self.protocol, script: self.script(), entropy: Entropy::Seed(0), allow_ext: true, allow_buffer: true }
    }
    pub fn brief(&self) -> String {
        let w = |v: &Vec<u8>| v.iter().map(|c| t::name_of(*c)).collect::<Vec<_>>().join(" ");
        let mut s = format!("P{} scripted:", self.protocol);
        if !self.pre.is_empty() {
            s += &format!(" {}", w(&self.pre));
        }
        s += &format!(" ({})^{}", w(&self.a), self.na);
        if !self.mid.is_empty() {
            s += &format!(" {}", w(&self.mid));
        }
        if !self.b.is_empty() {
            s += &format!(" ({})^{}", w(&self.b), self.nb);
        }
        s
    }
}

pub struct TowerRun {
    pub first: Result<Vec<u8>, Failure>,
    pub second: Result<Vec<u8>, Failure>,
    pub followed: bool,
    /// simulated stack depth after each scripted step (only when asked for)
    pub depths: Vec<usize>,
    pub memo_end: usize,
    pub kinds_end: Vec<u8>,
    /// kind of the top of the simulated stack after the first scripted step
    pub kinds_first: u8,
}

/// the scripted call, a second (short, seeded) call on the same generator, the drop - all on this thread
pub fn run_tower(tw: &Tower, record: bool) -> TowerRun {
    let sc = tw.script_case();
    let case = sc.gencase();
    let n = sc.script.len() as u64;
    let mut g = case.build(None);
    verif::start(TraceCfg {
        record_steps: record,
        record_state: record,
        record_valid: false,
        script: sc.script.clone(),
        fuel: Some(100 * (n + 1) + 10_000),
        draw_fuel: Some(100_000 * (n + 8) + 1_000_000),
    });
    let first = case::call_gen(&mut g, &case.entropy);
    let tr = verif::take();
    let followed = tr.script_misses == 0 && tr.script_used == sc.script.len();
    let (depths, memo_end, kinds_end, kinds_first) = if record {
        let d: Vec<usize> = tr.steps.iter().take(sc.script.len()).map(|s| s.stack.len()).collect();
        let last = tr.steps.get(sc.script.len().saturating_sub(1));
        let first = tr.steps.first().and_then(|s| s.stack.last().copied()).unwrap_or(0xff);
        (d, last.map_or(0, |s| s.memo.len()), last.map(|s| s.stack.clone()).unwrap_or_default(), first)
    } else {
        (vec![], 0, vec![], 0xff)
    };
    // a second call on the same generator: its entry releases everything the first call built
    g.min_opcodes = 2;
    g.max_opcodes = 2;
    let second = case::call_gen_guarded(&mut g, &Entropy::Seed(1));
    drop(g);
    TowerRun { first, second, followed, depths, memo_end, kinds_end, kinds_first }
}

/// bytes the generator still holds after the scripted call, not counting its output buffer
fn retained(tw: &Tower) -> i64 {
    let sc = tw.script_case();
    let case = sc.gencase();
    let before = crate::alloc::live();
    let mut g = case.build(None);
    verif::start(TraceCfg { script: sc.script.clone(), ..Default::default() });
    let first = case::call_gen(&mut g, &case.entropy);
    let _ = verif::take();
    drop(first);
    let held = crate::alloc::live() - before - g.output.capacity() as i64;
    drop(g);
    held
}

fn judge(tw: &Tower, r: &TowerRun) -> Result<(), Fail> {
    for (what, res) in [("the scripted call", &r.first), ("the next call on the same generator", &r.second)] {
        match res {
            Ok(o) if !o.is_empty() => {}
            Ok(_) => return Err(Fail::new("empty-output", format!("{}: {} returned Ok with an empty byte string", tw.brief(), what))),
            Err(Failure::Err(e)) => return Err(Fail::new("returned-err:tower", format!("{}: {} returned Err: {}", tw.brief(), what, e))),
            Err(Failure::Panic(p)) => {
                let class = if p.contains(verif::FUEL_PANIC) {
                    "runaway-emission"
                } else if p.contains(verif::DRAW_FUEL_PANIC) {
                    "runaway-entropy-draws"
                } else {
                    "panic:tower"
                };
                return Err(Fail::new(class, format!("{}: {} panicked: {}", tw.brief(), what, p)));
            }
        }
    }
    Ok(())
}

fn ops_of(protocol: u8) -> Vec<u8> {
    t::OPCODES.iter().filter(|o| o.proto <= protocol && !matches!(o.name, "STOP" | "PROTO" | "FRAME")).map(|o| o.code).collect()
}

fn par_for<T: Sync>(items: &[T], f: impl Fn(usize, &T) + Sync) {
    let next = AtomicUsize::new(0);
    std::thread::scope(|sc| {
        for _ in 0..THREADS {
            sc.spawn(|| loop {
                let i = next.fetch_add(1, Ordering::Relaxed);
                if i >= items.len() {
                    break;
                }
                f(i, &items[i]);
            });
        }
    });
}

pub struct Kept {
    pub tower: Tower,
    /// simulated stack slots gained per repetition of `a`
    pub growth: usize,
    /// bytes of generator state gained per repetition (measured between heights 16 and 80)
    pub bytes_per_rep: i64,
    /// the opcodes of the shape that are not plain pushes, in order, and the kind on top at the end
    pub skeleton: Vec<u8>,
    /// the memo gains entries with every repetition
    pub memo_grows: bool,
}

/// Stage 1: all shapes at small n; returns the shapes the loop follows (de-duplicated on their effect) or
/// the first shape on which generation itself fails
pub fn discover(protocol: u8, st: &mut Stats) -> Result<Vec<Kept>, (Tower, Fail)> {
    let ops = ops_of(protocol);
    let mut words: Vec<Vec<u8>> = ops.iter().map(|a| vec![*a]).collect();
    for a in &ops {
        for b in &ops {
            words.push(vec![*a, *b]);
        }
    }
    let mut pres: Vec<Vec<u8>> = vec![vec![]];
    pres.extend(ops.iter().map(|a| vec![*a]));
    let mut cands: Vec<Tower> = Vec::new();
    // repeated words behind an optional one-opcode prefix
    for pre in &pres {
        for w in &words {
            cands.push(Tower { protocol, pre: pre.clone(), a: w.clone(), na: 12, mid: vec![], b: vec![], nb: 0 });
        }
    }
    // open^n (filler) close^n
    let fillers: Vec<Vec<u8>> = vec![vec![], vec![t::NONE], vec![t::MARK]];
    for a in &ops {
        for mid in &fillers {
            for b in &ops {
                if a != b {
                    cands.push(Tower { protocol, pre: vec![], a: vec![*a], na: 6, mid: mid.clone(), b: vec![*b], nb: 6 });
                }
            }
        }
    }
    let kept: Mutex<Vec<(usize, Kept, Vec<u8>, usize)>> = Mutex::new(Vec::new());
    let failed: Mutex<Option<(usize, Fail)>> = Mutex::new(None);
    par_for(&cands, |i, tw| {
        let r = run_tower(tw, true);
        if let Err(f) = judge(tw, &r) {
            let mut g = failed.lock().unwrap();
            if g.as_ref().map_or(true, |(j, _)| i < *j) {
                *g = Some((i, f));
            }
            return;
        }
        if !r.followed {
            return;
        }
        let wl = tw.a.len();
        let at = |rep: usize| r.depths.get(tw.pre.len() + rep * wl - 1).copied().unwrap_or(0);
        let growth = if tw.b.is_empty() { (at(12).saturating_sub(at(6))) / 6 } else { 1 };
        if !tw.b.is_empty() {
            // open / close shapes: the closing word must not grow the stack (otherwise the shape is just a
            // longer run of pushes, which the repeated-word shapes cover)
            let after_mid = r.depths.get(tw.na + tw.mid.len() - 1).copied().unwrap_or(0);
            let end = r.depths.last().copied().unwrap_or(0);
            if end > after_mid {
                return;
            }
        }
        let mut top: Vec<u8> = r.kinds_end.iter().rev().take(3).copied().collect();
        if !tw.b.is_empty() {
            // ... and they are told apart by the kind of object the opening word stacks up, not by the word
            top.push(0xfe);
            top.push(r.kinds_first);
        }
        kept.lock().unwrap().push((i, Kept { tower: tw.clone(), growth, bytes_per_rep: 0, skeleton: vec![], memo_grows: r.memo_end >= 6 }, top, r.memo_end));
    });
    st.evaluations += cands.len() as u64;
    st.add("towers stage 1: shapes tried at small n", cands.len() as u64);
    if let Some((i, f)) = failed.into_inner().unwrap() {
        return Err((cands[i].clone(), f));
    }
    let mut v = kept.into_inner().unwrap();
    v.sort_by_key(|x| x.0);
    // one representative per (word(s), growth, top of the final simulated stack, memo growth): prefixes that
    // only differ in an object lying untouched at the bottom are the same tower
    // plain pushes: one-opcode words without prefix that gain a stack slot per repetition
    let pushers: HashSet<u8> = v.iter().filter(|(_, k, _, _)| k.tower.pre.is_empty() && k.tower.b.is_empty() && k.tower.a.len() == 1 && k.growth >= 1).map(|(_, k, _, _)| k.tower.a[0]).collect();
    for (_, k, top, _) in v.iter_mut() {
        let tw = &k.tower;
        let mut sk: Vec<u8> = tw.pre.iter().chain(tw.a.iter()).chain(tw.mid.iter()).chain(tw.b.iter()).copied().filter(|c| !pushers.contains(c)).collect();
        sk.push(0xff);
        sk.push(top.first().copied().unwrap_or(0xff));
        k.skeleton = sk;
    }
    let mut seen: HashSet<(Vec<u8>, Vec<u8>, Vec<u8>, usize, Vec<u8>, bool)> = HashSet::new();
    let mut out = Vec::new();
    for (_, k, top, memo) in v {
        let open_close = !k.tower.b.is_empty();
        let key = (if open_close { vec![] } else { k.tower.a.clone() }, vec![], k.tower.b.clone(), k.growth, if open_close { top.iter().rev().take(3).copied().collect() } else { top }, memo > 2);
        if seen.insert(key) {
            out.push(k);
        }
    }
    st.add("towers stage 1: distinct shapes the generation loop follows", out.len() as u64);
    // a shape is a tower only if the loop still follows it at a height of a few hundred (BINPUT, for one, stops
    // being a candidate at 256 memo entries: beyond that the "tower" would be an ordinary random program)
    let ok: Vec<Mutex<bool>> = out.iter().map(|_| Mutex::new(false)).collect();
    par_for(&out, |i, k| {
        let r = run_tower(&k.tower.scaled(400), false);
        *ok[i].lock().unwrap() = r.followed && judge(&k.tower, &r).is_ok();
    });
    let before = out.len();
    let mut keep = ok.into_iter().map(|m| m.into_inner().unwrap());
    out.retain(|_| keep.next().unwrap());
    st.add("towers stage 1: shapes dropped because the loop stops following them below height 400", (before - out.len()) as u64);
    // which of them build something: generator state held after the call, at two heights
    let grow: Vec<Mutex<i64>> = out.iter().map(|_| Mutex::new(0)).collect();
    par_for(&out, |i, k| {
        let lo = retained(&k.tower.scaled(16));
        let hi = retained(&k.tower.scaled(80));
        *grow[i].lock().unwrap() = (hi - lo) / 64;
    });
    for (k, g) in out.iter_mut().zip(grow) {
        k.bytes_per_rep = g.into_inner().unwrap();
    }
    Ok(out)
}

fn scale_for(k: &Kept, n: usize) -> Tower {
    // shapes that grow the simulated stack cost O(depth) per step: keep their total work comparable
    k.tower.scaled(n.max(1))
}

/// the towers of stage 2 for this run (all in-place shapes; a seeded sample of the stack-growing ones in the
/// quick tier)
pub fn stage2_list(ctx: &Ctx, st: &mut Stats, n: usize) -> Result<Vec<(Tower, bool)>, (Tower, Fail)> {
    let mut all = Vec::new();
    for p in 0u8..=5 {
        let kept = discover(p, st)?;
        // builders: the stack stays flat but the state grows (nesting, memo); open/close shapes; stack growers;
        // inert shapes (nothing accumulates)
        let mut classes: [Vec<&Kept>; 4] = [vec![], vec![], vec![], vec![]];
        for k in &kept {
            let c = if !k.tower.b.is_empty() {
                1
            } else if k.growth > 0 {
                2
            } else if k.bytes_per_rep >= 8 {
                0
            } else {
                3
            };
            classes[c].push(k);
        }
        let names = ["flat-stack builders (nesting / memo growth)", "open^n .. close^n", "stack growers", "inert"];
        for (c, name) in names.iter().enumerate() {
            st.add(&format!("towers stage 1: {} shapes", name), classes[c].len() as u64);
        }
        if !ctx.thorough() {
            for (c, keep) in [(2usize, 40usize), (3, 24)] {
                let v = &mut classes[c];
                if v.len() > keep {
                    let off = (ctx.seed as usize).wrapping_mul(7919).wrapping_add(p as usize) % v.len();
                    v.rotate_left(off);
                    v.truncate(keep);
                }
            }
        }
        let mut skeletons: HashSet<Vec<u8>> = HashSet::new();
        for (c, v) in classes.iter().enumerate() {
            for k in v {
                // Cost: shapes that keep the stack flat and the memo small are linear in the height, the others
                // (deep stack or large memo under every step) quadratic. In the quick tier the quadratic ones run
                // at full height once per sequence of non-push opcodes and at a quarter of it otherwise.
                // Unoptimised build (largest stack frames): what matters there is the chain of containers that is
                // built, not which plain values sit in it - one shape per skeleton.
                let quadratic = c == 1 || c == 2 || k.memo_grows;
                let key: Vec<u8> = if quadratic { k.skeleton[..k.skeleton.len().saturating_sub(2)].to_vec() } else { k.skeleton.clone() };
                let rep = skeletons.insert(key);
                // thorough: linear shapes at 40 000, quadratic representatives at 24 000, the other quadratic
                // shapes (all of them, not a sample) at 4 000
                let h = match (quadratic, rep, ctx.thorough()) {
                    (false, _, _) => n,
                    (true, true, false) => n,
                    (true, false, false) => n / 4,
                    (true, true, true) => n * 3 / 5,
                    (true, false, true) => n / 10,
                };
                all.push((scale_for(k, h), rep && c <= 1));
            }
        }
        st.add("towers: shapes also run in the unoptimised build", all.iter().filter(|(t, d)| *d && t.protocol == p).count() as u64);
    }
    Ok(all)
}

thread_local! {
    static CUR: std::cell::RefCell<Option<std::fs::File>> = const { std::cell::RefCell::new(None) };
}

fn note(ctx: &Ctx, idx: Option<usize>) {
    CUR.with(|c| {
        let mut c = c.borrow_mut();
        if c.is_none() {
            let path = format!("{}/work/c09-tw-cur-{}-{:?}", ctx.verif_dir, std::process::id(), std::thread::current().id());
            *c = std::fs::File::create(path).ok();
        }
        if let Some(f) = c.as_mut() {
            let s = idx.map(|i| i.to_string()).unwrap_or_default();
            let _ = f.seek(SeekFrom::Start(0));
            let _ = f.write_all(s.as_bytes());
            let _ = f.set_len(s.len() as u64);
        }
    });
}

/// `pfverif c09-towers <file> [<index>]`: run the towers of the file (or one of them) on 2 MiB threads
pub fn towers_child(ctx: &Ctx, path: &str, only: Option<usize>) -> i32 {
    let Ok(b) = std::fs::read(path) else { return 2 };
    let Ok(list) = serde_json::from_slice::<Vec<Tower>>(&b) else { return 2 };
    let idxs: Vec<usize> = match only {
        Some(i) => vec![i],
        None => (0..list.len()).collect(),
    };
    let next = AtomicUsize::new(0);
    let first_fail: Mutex<Option<(usize, Fail)>> = Mutex::new(None);
    let done = AtomicUsize::new(0);
    let unfollowed = AtomicUsize::new(0);
    let slow: Mutex<Vec<(u128, usize)>> = Mutex::new(Vec::new());
    std::thread::scope(|sc| {
        for _ in 0..THREADS.min(idxs.len().max(1)) {
            std::thread::Builder::new()
                .stack_size(2 << 20)
                .spawn_scoped(sc, || loop {
                    let k = next.fetch_add(1, Ordering::Relaxed);
                    if k >= idxs.len() || first_fail.lock().unwrap().is_some() {
                        break;
                    }
                    let i = idxs[k];
                    note(ctx, Some(i));
                    let t1 = std::time::Instant::now();
                    let r = run_tower(&list[i], false);
                    note(ctx, None);
                    slow.lock().unwrap().push((t1.elapsed().as_millis(), i));
                    done.fetch_add(1, Ordering::Relaxed);
                    if !r.followed {
                        unfollowed.fetch_add(1, Ordering::Relaxed);
                    }
                    if let Err(f) = judge(&list[i], &r) {
                        let mut g = first_fail.lock().unwrap();
                        if g.as_ref().map_or(true, |(j, _)| i < *j) {
                            *g = Some((i, f));
                        }
                    }
                })
                .expect("spawn");
        }
    });
    let ff = first_fail.into_inner().unwrap();
    let mut slow = slow.into_inner().unwrap();
    slow.sort();
    let total_ms: u128 = slow.iter().map(|x| x.0).sum();
    let slowest: Vec<String> = slow.iter().rev().take(25).map(|(ms, i)| format!("{} ms {}", ms, list[*i].brief())).collect();
    let res = json!({
        "total_ms": total_ms as u64,
        "slowest": slowest,
        "done": done.load(Ordering::Relaxed),
        "unfollowed": unfollowed.load(Ordering::Relaxed),
        "failure": ff.as_ref().map(|(i, f)| json!({"index": i, "sig": f.sig, "msg": f.msg})),
    });
    let rp = format!("{}/work/c09-tw-result-{}.json", ctx.verif_dir, std::process::id());
    if std::fs::write(&rp, serde_json::to_vec(&res).unwrap()).is_err() {
        return 3;
    }
    if only.is_some() && ff.is_some() {
        return 1;
    }
    0
}

fn wait_limit(child: &mut std::process::Child, limit: Duration) -> Option<std::process::ExitStatus> {
    let t0 = std::time::Instant::now();
    loop {
        match child.try_wait() {
            Ok(Some(s)) => return Some(s),
            Ok(None) => {
                if t0.elapsed() > limit {
                    let _ = child.kill();
                    let _ = child.wait();
                    return None;
                }
                std::thread::sleep(Duration::from_millis(100));
            }
            Err(_) => return None,
        }
    }
}

fn crumbs(ctx: &Ctx, pid: u32, remove: bool) -> Vec<usize> {
    let mut v = vec![];
    if let Ok(d) = std::fs::read_dir(format!("{}/work", ctx.verif_dir)) {
        for e in d.filter_map(|e| e.ok()) {
            let p = e.path();
            if p.to_string_lossy().contains(&format!("c09-tw-cur-{}-", pid)) {
                if let Ok(s) = std::fs::read_to_string(&p) {
                    if let Ok(i) = s.trim().parse::<usize>() {
                        v.push(i);
                    }
                }
                if remove {
                    let _ = std::fs::remove_file(&p);
                }
            }
        }
    }
    v.sort();
    v
}

/// one tower alone in a fresh process: Ok(None) fine, Ok(Some(desc)) it fails / kills the process
pub fn tower_alone(ctx: &Ctx, exe: &str, tw: &Tower, limit: Duration) -> Result<Option<(String, String)>, String> {
    let path = format!("{}/work/c09-tw-one-{}-{}.json", ctx.verif_dir, std::process::id(), util::digest_str(&tw.brief()));
    std::fs::write(&path, serde_json::to_vec(&vec![tw.clone()]).unwrap()).map_err(|e| e.to_string())?;
    let ch = Command::new(exe).args(["c09-towers", &path, "0"]).env("VERIF_DIR", &ctx.verif_dir).stdout(Stdio::null()).stderr(Stdio::null()).spawn();
    let mut ch = match ch {
        Ok(c) => c,
        Err(e) => {
            let _ = std::fs::remove_file(&path);
            return Err(format!("cannot spawn: {}", e));
        }
    };
    let pid = ch.id();
    let s = wait_limit(&mut ch, limit);
    let _ = std::fs::remove_file(&path);
    let _ = crumbs(ctx, pid, true);
    let rp = format!("{}/work/c09-tw-result-{}.json", ctx.verif_dir, pid);
    let res: Option<Value> = std::fs::read(&rp).ok().and_then(|b| serde_json::from_slice(&b).ok());
    let _ = std::fs::remove_file(&rp);
    match s {
        None => Err(format!("watchdog: {} did not finish within {} s", tw.brief(), limit.as_secs())),
        Some(st) if st.success() => Ok(None),
        Some(st) if st.code() == Some(1) => {
            let f = res.as_ref().and_then(|r| r.get("failure")).cloned().unwrap_or(Value::Null);
            Ok(Some((f["sig"].as_str().unwrap_or("tower-failed").to_string(), f["msg"].as_str().unwrap_or("the generation failed").to_string())))
        }
        Some(st) => Ok(Some(("process-death:tower".into(), format!("{}: the process died ({})", tw.brief(), st)))),
    }
}

/// Stage 2 with one binary
fn stage2(ctx: &Ctx, out: &mut Outcome, exe: &str, list: &[Tower], tag: &str, dev: bool) {
    let path = format!("{}/work/c09-towers-{}-{}.json", ctx.verif_dir, std::process::id(), if dev { "dev" } else { "rel" });
    if std::fs::write(&path, serde_json::to_vec(list).unwrap()).is_err() {
        out.inconclusive = Some("cannot write the tower list".into());
        return;
    }
    let ch = Command::new(exe).args(["c09-towers", &path]).env("VERIF_DIR", &ctx.verif_dir).stdout(Stdio::null()).stderr(Stdio::null()).spawn();
    let mut ch = match ch {
        Ok(c) => c,
        Err(e) => {
            out.inconclusive = Some(format!("cannot spawn the tower child: {}", e));
            let _ = std::fs::remove_file(&path);
            return;
        }
    };
    let pid = ch.id();
    let limit = Duration::from_secs(if ctx.thorough() { 3 * 3600 } else { 1500 });
    let status = wait_limit(&mut ch, limit);
    let _ = std::fs::remove_file(&path);
    let in_flight = crumbs(ctx, pid, true);
    let rp = format!("{}/work/c09-tw-result-{}.json", ctx.verif_dir, pid);
    let res: Option<Value> = std::fs::read(&rp).ok().and_then(|b| serde_json::from_slice(&b).ok());
    let _ = std::fs::remove_file(&rp);
    let viol = |out: &mut Outcome, tw: &Tower, sig: String, msg: String| {
        let f = Fail::new(sig, format!("{}{}", tag, msg));
        let mut st = Stats::default();
        if ctx.fail(&mut st, f.clone()).is_err() {
            out.violation = Some(Violation { fail: f, case: json!({"tower": tw, "dev_profile": dev}) });
        }
    };
    match status {
        None => {
            let which = in_flight.iter().map(|i| list[*i].brief()).collect::<Vec<_>>().join("; ");
            out.inconclusive = Some(format!(
                "{}watchdog: the scripted towers did not finish within {} s (a spin that neither emits nor draws entropy cannot be told from slowness, so this is not reported as a violation); in flight: {}",
                tag,
                limit.as_secs(),
                which
            ));
        }
        Some(s) if s.success() => {
            let Some(res) = res else {
                out.inconclusive = Some("the tower child produced no result file".into());
                return;
            };
            let done = res["done"].as_u64().unwrap_or(0);
            if std::env::var("C09_TOWER_TIMING").is_ok() {
                eprintln!("{}total {} ms; slowest: {:#?}", tag, res["total_ms"], res["slowest"]);
            }
            out.stats.evaluations += done;
            out.stats.add(&format!("{}towers stage 2: shapes run at full height", tag), done);
            out.stats.add(&format!("{}towers stage 2: shapes whose script was not followed to the end at full height", tag), res["unfollowed"].as_u64().unwrap_or(0));
            if let Some(f) = res.get("failure").filter(|f| !f.is_null()) {
                let i = f["index"].as_u64().unwrap_or(0) as usize;
                viol(out, &list[i], f["sig"].as_str().unwrap_or("?").to_string(), f["msg"].as_str().unwrap_or("?").to_string());
            }
        }
        Some(s) => {
            // the child died: confirm the tower that was in flight, alone in a fresh process
            for i in in_flight {
                match tower_alone(ctx, exe, &list[i], Duration::from_secs(900)) {
                    Ok(Some((sig, msg))) => {
                        viol(out, &list[i], sig, msg);
                        return;
                    }
                    Ok(None) => {}
                    Err(e) => {
                        out.inconclusive = Some(e);
                        return;
                    }
                }
            }
            out.inconclusive = Some(format!("{}the tower child died ({}) but no single tower reproduces it", tag, s));
        }
    }
}

pub fn run(ctx: &Ctx, out: &mut Outcome) {
    if out.failed() || out.inconclusive.is_some() {
        return;
    }
    let (n_rel, n_dev) = if ctx.thorough() { (40_000, 15_000) } else { (12_000, 6_000) };
    let mut st = Stats::default();
    let t0 = std::time::Instant::now();
    let timing = std::env::var("C09_TOWER_TIMING").is_ok();
    let list = match stage2_list(ctx, &mut st, n_rel) {
        Ok(l) => l,
        Err((tw, f)) => {
            out.stats.merge(st);
            let mut s2 = Stats::default();
            if ctx.fail(&mut s2, f.clone()).is_err() {
                out.violation = Some(Violation { fail: f, case: json!({"tower": tw, "dev_profile": false}) });
            }
            return;
        }
    };
    let pairs = list;
    let list: Vec<Tower> = pairs.iter().map(|(t, _)| t.clone()).collect();
    for tw in list.iter().step_by((list.len() / 12).max(1)) {
        st.nontrivial(util::digest_str(&tw.brief()));
        st.sample(|| json!({"tower": tw.brief()}));
    }
    for tw in &list {
        st.nontrivial(util::digest_str(&tw.brief()));
    }
    out.stats.merge(st);
    if timing {
        eprintln!("towers: stage 1 {:?}", t0.elapsed());
    }
    stage2(ctx, out, &util::self_exe().to_string_lossy(), &list, "[towers] ", false);
    if timing {
        eprintln!("towers: + optimised stage 2 {:?}", t0.elapsed());
    }
    if out.failed() || out.inconclusive.is_some() {
        return;
    }
    match crate::props::procs::build_dev_harness(ctx) {
        Err(e) => out.inconclusive = Some(e),
        Ok(exe) => {
            // the unoptimised build has the largest stack frames: the shapes that build nested or memoised
            // structure (all shapes in the thorough tier)
            let dev_list: Vec<Tower> = pairs.iter().filter(|(_, b)| *b).map(|(t, _)| t.scaled(n_dev)).collect();
            stage2(ctx, out, &exe, &dev_list, "[towers, unoptimised build] ", true);
            if timing {
                eprintln!("towers: + unoptimised stage 2 {:?}", t0.elapsed());
            }
        }
    }
}

pub fn replay(ctx: &Ctx, v: &Value) -> Result<(), Fail> {
    let tw: Tower = serde_json::from_value(v["tower"].clone()).map_err(|e| Fail::new("harness:replay", e.to_string()))?;
    let dev = v["dev_profile"].as_bool().unwrap_or(false);
    let exe = if dev { crate::props::procs::build_dev_harness(ctx).map_err(|e| Fail::new("harness:build", e))? } else { util::self_exe().to_string_lossy().to_string() };
    match tower_alone(ctx, &exe, &tw, Duration::from_secs(900)) {
        Err(e) => Err(Fail::new("harness:watchdog", e)),
        Ok(None) => Ok(()),
        Ok(Some((sig, msg))) => {
            let mut st = Stats::default();
            ctx.fail(&mut st, Fail::new(sig, msg))
        }
    }
}
