//! Bounded breadth-first enumeration of the generator's own decision tree, driven through the
//! real generation loop by the scripted-choice hook. Nodes are de-duplicated on the abstract
//! simulated state (stack kind vector + memo kinds) reached after the script.

use crate::case::{Entropy, GenCase, RateSpec};
use crate::props::c17;
use crate::refpvm::lexer;
use crate::refpvm::machine;
use crate::refpvm::optable as t;
use crate::runner::{Ctx, Fail, Outcome, Stats, Violation, THREADS};
use crate::util;
use pickle_fuzzer::verif::{self, TraceCfg};
use serde::{Deserialize, Serialize};
use serde_json::json;
use std::collections::HashSet;
use std::sync::Mutex;

#[derive(Clone, Copy, Debug, PartialEq, Eq)]
pub enum TreeOracle {
    C01,
    C03,
    C17,
    /// well-formed stream + the argument-domain rules of C04
    C04,
    /// only opcodes of the requested protocol, right header
    C05,
}

#[derive(Clone, Debug, Serialize, Deserialize)]
pub struct ScriptCase {
    pub protocol: u8,
    #[serde(with = "crate::case::hexbytes")]
    pub script: Vec<u8>,
    pub entropy: Entropy,
    pub allow_ext: bool,
    pub allow_buffer: bool,
}

impl ScriptCase {
    pub fn gencase(&self) -> GenCase {
        let n = self.script.len() + 1;
        GenCase {
            protocol: self.protocol,
            entropy: self.entropy.clone(),
            min_opcodes: n,
            max_opcodes: n,
            mutators: vec![],
            rate: RateSpec::builder(0.0),
            unsafe_mutations: false,
            allow_ext: self.allow_ext,
            allow_buffer: self.allow_buffer,
            prior_calls: 0,
            build_style: 0,
            bufsize: None,
        }
    }
    pub fn names(&self) -> Vec<&'static str> {
        self.script.iter().map(|c| t::name_of(*c)).collect()
    }
}

pub struct NodeOut {
    pub key: (u64, u64),
    pub valid: Vec<u8>,
    pub opcodes_seen: Vec<u8>,
}

/// run one node; judge the whole pickle (script + one free step + collapse tail + STOP)
pub fn run_node(sc: &ScriptCase, oracle: TreeOracle) -> Result<NodeOut, Fail> {
    let case = sc.gencase();
    let cfg = TraceCfg { record_steps: true, record_state: true, record_valid: true, script: sc.script.clone(), fuel: Some(100 * (sc.script.len() as u64 + 1) + 10_000), draw_fuel: Some(10_000_000) };
    let (res, tr) = case.run_traced(cfg, None);
    let out = match res {
        Ok(o) => o,
        Err(e) => return Err(Fail::new("generation-failed", format!("{} on script {:?}", e, sc.names()))),
    };
    if tr.script_misses != 0 || tr.script_used != sc.script.len() {
        return Err(Fail::new("harness:script", format!("script not followed: used {} misses {}", tr.script_used, tr.script_misses)));
    }
    let ops = lexer::lex_py(&out).map_err(|e| Fail::new(format!("undecodable:{}", e.class), e.to_string()).with_output(&out))?;
    match oracle {
        TreeOracle::C01 => {
            let r = machine::run(&ops);
            if let Some(f) = r.fault {
                return Err(Fail::new(format!("{}:{}", f.class, t::name_of(f.code)), f.to_string()).with_output(&out));
            }
        }
        TreeOracle::C03 => {
            let r = machine::run(&ops);
            if let Some(k) = r.kind_faults.first() {
                return Err(Fail::new(format!("{}:{}", k.class, t::name_of(k.code)), k.to_string()).with_output(&out));
            }
        }
        TreeOracle::C17 => {
            c17::compare(&out, &tr).map_err(|f| f.with_output(&out))?;
        }
        TreeOracle::C04 => {
            for op in &ops {
                if let Some(e) = lexer::c04_domain(op) {
                    return Err(Fail::new(format!("{}:{}", e.class, e.code.map(t::name_of).unwrap_or("-")), e.to_string()).with_output(&out));
                }
            }
            if ops.last().map(|o| o.code()) != Some(t::STOP) || ops.iter().filter(|o| o.code() == t::STOP).count() != 1 {
                return Err(Fail::new("stop-count", "not exactly one STOP, as the last opcode".to_string()).with_output(&out));
            }
        }
        TreeOracle::C05 => {
            for op in &ops {
                if op.info.proto > sc.protocol {
                    return Err(Fail::new(
                        format!("newer-opcode:{}@P{}", op.info.name, sc.protocol),
                        format!("protocol {} output contains {} (introduced in protocol {}) at offset {}", sc.protocol, op.info.name, op.info.proto, op.pos),
                    )
                    .with_output(&out));
                }
            }
            if sc.protocol == 0 && out.iter().any(|b| *b >= 0x80) {
                return Err(Fail::new("non-ascii@P0", "protocol 0 output contains a byte >= 0x80".to_string()).with_output(&out));
            }
        }
    }
    // state after the scripted prefix = state recorded by body step #len (1-based), i.e. before the free step
    let d = sc.script.len();
    let (key, valid) = if d == 0 {
        ((0, 0), tr.steps.first().map(|s| s.valid.clone()).unwrap_or_default())
    } else {
        let s = &tr.steps[d - 1];
        let mut b: Vec<u8> = s.stack.clone();
        b.push(0xff);
        for (k, kind) in s.memo.iter().zip(s.memo_kinds.iter()) {
            b.extend_from_slice(&(*k as u32).to_le_bytes());
            b.push(*kind);
        }
        let k1 = util::digest(&b);
        b.push(0x5a);
        let k2 = util::digest(&b);
        ((k1, k2), tr.steps.get(d).map(|s| s.valid.clone()).unwrap_or_default())
    };
    Ok(NodeOut { key, valid, opcodes_seen: ops.iter().map(|o| o.code()).collect() })
}

fn par_map<T: Sync, R: Send>(items: &[T], f: impl Fn(&T) -> R + Sync) -> Vec<R> {
    let n = items.len();
    let slots: Vec<Mutex<Option<R>>> = (0..n).map(|_| Mutex::new(None)).collect();
    let next = std::sync::atomic::AtomicUsize::new(0);
    std::thread::scope(|sc| {
        for _ in 0..THREADS.min(n.max(1)) {
            sc.spawn(|| loop {
                let i = next.fetch_add(64, std::sync::atomic::Ordering::Relaxed);
                if i >= n {
                    break;
                }
                for j in i..(i + 64).min(n) {
                    *slots[j].lock().unwrap() = Some(f(&items[j]));
                }
            });
        }
    });
    slots.into_iter().map(|m| m.into_inner().unwrap().unwrap()).collect()
}

/// BFS up to `depth` scripted choices for every protocol; EXT and buffer opcodes enabled so the
/// whole vocabulary is in play; arguments come from exhausted fuzzer bytes (fixed fallbacks) and
/// from one PRNG seed.
pub fn run_tree(ctx: &Ctx, out: &mut Outcome, depth: usize, oracle: TreeOracle) {
    if out.failed() {
        return;
    }
    let mut total_runs = 0u64;
    let mut total_states = 0u64;
    let mut reached: HashSet<(u8, u8)> = HashSet::new();
    for protocol in 0u8..=5 {
        for (ei, entropy) in [Entropy::Bytes(vec![]), Entropy::Seed(ctx.seed ^ 0x7ee)].into_iter().enumerate() {
            // the PRNG variant goes one level less deep (it only varies argument values)
            let maxd = if ei == 0 { depth } else { depth.saturating_sub(1) };
            let mut seen: HashSet<(u64, u64)> = HashSet::new();
            let mut frontier: Vec<Vec<u8>> = vec![vec![]];
            for d in 0..=maxd {
                let cases: Vec<ScriptCase> = frontier
                    .iter()
                    .map(|s| ScriptCase { protocol, script: s.clone(), entropy: entropy.clone(), allow_ext: true, allow_buffer: true })
                    .collect();
                let results = par_map(&cases, |sc| run_node(sc, oracle));
                total_runs += cases.len() as u64;
                let mut next: Vec<Vec<u8>> = Vec::new();
                for (sc, r) in cases.iter().zip(results.into_iter()) {
                    match r {
                        Err(f) => {
                            let mut st = Stats::default();
                            if ctx.fail(&mut st, f.clone()).is_err() {
                                out.violation = Some(Violation { fail: f, case: json!({"script_case": sc, "script_names": sc.names()}) });
                                out.stats.evaluations += total_runs;
                                return;
                            }
                            out.stats.merge(st);
                        }
                        Ok(node) => {
                            for c in &node.opcodes_seen {
                                reached.insert((protocol, *c));
                            }
                            if seen.insert(node.key) {
                                total_states += 1;
                                out.stats.nontrivial(node.key.0 ^ ((protocol as u64) << 56) ^ ((ei as u64) << 48) ^ ((oracle as u64) << 40));
                                if d == maxd.min(3) && protocol == 4 && ei == 0 {
                                    out.stats.sample(|| json!({"tree_node": {"protocol": protocol, "script": sc.names(), "children": node.valid.len()}}));
                                }
                                if d < maxd {
                                    for v in &node.valid {
                                        let mut s = sc.script.clone();
                                        s.push(*v);
                                        next.push(s);
                                    }
                                }
                            }
                        }
                    }
                }
                frontier = next;
                if frontier.is_empty() {
                    break;
                }
            }
        }
    }
    run_rows(ctx, out, oracle);
    run_dict(ctx, out, oracle);
    if out.failed() {
        out.stats.evaluations += total_runs;
        return;
    }
    out.stats.evaluations += total_runs;
    out.stats.add("tree: runs through the real generation loop", total_runs);
    out.stats.add("tree: distinct abstract states expanded", total_states);
    out.stats.add("tree: (protocol, opcode) pairs executed", reached.len() as u64);
    out.extra.insert("tree".into(), json!({"depth": depth, "runs": total_runs, "abstract_states": total_states, "protocol_opcode_pairs": reached.len()}));
}


/// Data-dependent corners: the opcodes whose argument is drawn from the embedded table of stdlib names
/// (GLOBAL, INST) are scripted and the first two entropy bytes behind the script are enumerated exhaustively,
/// which walks through every row of the table (19 061 rows < 65 536); each program continues with the
/// opcodes that consume the name (REDUCE, INST) so that every oracle sees what the row does to the machine.
pub fn run_rows(ctx: &Ctx, out: &mut Outcome, oracle: TreeOracle) {
    let mut scripts: Vec<Vec<u8>> = vec![vec![t::GLOBAL], vec![t::GLOBAL, t::MARK, t::TUPLE, t::REDUCE], vec![t::MARK, t::NONE, t::INST]];
    if oracle == TreeOracle::C03 {
        // ... and, for the operand-kind property, every container-mutating opcode offered on the REDUCE result
        // (a script whose last opcode is not a candidate - the normal case - is skipped)
        let reduce = [t::GLOBAL, t::MARK, t::TUPLE, t::REDUCE];
        for tail in [vec![t::NONE, t::APPEND], vec![t::NONE, t::NONE, t::SETITEM], vec![t::MARK, t::NONE, t::APPENDS], vec![t::MARK, t::NONE, t::NONE, t::SETITEMS], vec![t::MARK, t::NONE, t::ADDITEMS], vec![t::NONE, t::BUILD]] {
            let mut s = reduce.to_vec();
            s.extend(tail);
            scripts.push(s);
        }
    }
    let mut total = 0u64;
    let mut unfollowed = 0u64;
    let mut distinct: HashSet<u64> = HashSet::new();
    for protocol in 0u8..=5 {
        // protocols >= 4 draw the FRAME coin first: both values of that byte
        let heads: Vec<Vec<u8>> = if protocol >= 4 { vec![vec![0], vec![1]] } else { vec![vec![]] };
        for script in &scripts {
            for head in &heads {
                let cases: Vec<ScriptCase> = (0..65536u32)
                    .map(|x| {
                        let mut b = head.clone();
                        b.push((x >> 8) as u8);
                        b.push(x as u8);
                        ScriptCase { protocol, script: script.clone(), entropy: Entropy::Bytes(b), allow_ext: true, allow_buffer: true }
                    })
                    .collect();
                let results = par_map(&cases, |sc| run_node(sc, oracle).map(|n| util::digest(&n.opcodes_seen) ^ n.key.0));
                total += cases.len() as u64;
                for (sc, r) in cases.iter().zip(results.into_iter()) {
                    match r {
                        // the loop did not follow the script (an opcode of it was not a candidate): not a case
                        Err(f) if f.sig.starts_with("harness:") => unfollowed += 1,
                        Err(f) => {
                            let mut st = Stats::default();
                            if ctx.fail(&mut st, f.clone()).is_err() {
                                out.violation = Some(Violation { fail: f, case: json!({"script_case": sc, "script_names": sc.names()}) });
                                out.stats.evaluations += total;
                                return;
                            }
                            out.stats.merge(st);
                        }
                        Ok(d) => {
                            distinct.insert(d ^ ((protocol as u64) << 56));
                        }
                    }
                }
            }
        }
    }
    out.stats.evaluations += total;
    out.stats.add("name-table sweep: scripted GLOBAL / INST programs, first two entropy bytes enumerated", total);
    out.stats.add("name-table sweep: programs whose script was not followed (skipped)", unfollowed);
}

/// boundary words an entropy-driven value draw may meet: every 4-byte and 8-byte pattern that decodes to an
/// extreme integer or a special float in either byte order, and bytes that are special inside text arguments
fn entropy_dictionary() -> Vec<Vec<u8>> {
    let mut words: Vec<Vec<u8>> = vec![];
    for w in [0u32, u32::MAX, 0x8000_0000, 0x7fff_ffff, 1, 0xff, 0x100, 0xffff, 0x1_0000, 0x0a0a_0a0a, 0x2e2e_2e2e, 0x5c5c_5c5c, 0x2727_2727, 0x9595_9595, 0x5c75_5c75] {
        words.push(w.to_le_bytes().to_vec());
        words.push(w.to_be_bytes().to_vec());
    }
    for f in [f64::INFINITY, f64::NEG_INFINITY, f64::NAN, -0.0f64, f64::MAX, f64::MIN_POSITIVE, 5e-324, 1e300] {
        words.push(f.to_le_bytes().to_vec());
        words.push(f.to_be_bytes().to_vec());
    }
    // signalling NaNs and a NaN with payload
    for bits in [0x7ff0_0000_0000_0001u64, 0xfff0_0000_0000_0001, 0x7ff8_dead_beef_0001, 0x7ff4_0000_0000_0000] {
        words.push(bits.to_le_bytes().to_vec());
        words.push(bits.to_be_bytes().to_vec());
    }
    words.sort();
    words.dedup();
    // repeated so that several consecutive draws see the word
    words.into_iter().map(|w| w.iter().cycle().take(w.len() * 4).copied().collect()).collect()
}

/// Value-dependent corners: every program of one or two scripted opcodes (all that the loop offers from the
/// empty machine) is generated with each entry of a dictionary of boundary words as its fuzzer bytes - the
/// scripted choices consume no entropy, so the first value draw of the program decodes the word.
pub fn run_dict(ctx: &Ctx, out: &mut Outcome, oracle: TreeOracle) {
    if out.failed() {
        return;
    }
    let dict = entropy_dictionary();
    let mut total = 0u64;
    let mut unfollowed = 0u64;
    for protocol in 0u8..=5 {
        // scripts of length 1 and 2
        let root = ScriptCase { protocol, script: vec![], entropy: Entropy::Bytes(vec![]), allow_ext: true, allow_buffer: true };
        let Ok(n0) = run_node(&root, oracle) else { continue };
        let mut scripts: Vec<Vec<u8>> = n0.valid.iter().map(|v| vec![*v]).collect();
        let firsts: Vec<ScriptCase> = scripts.iter().map(|s| ScriptCase { protocol, script: s.clone(), entropy: Entropy::Bytes(vec![]), allow_ext: true, allow_buffer: true }).collect();
        let r1 = par_map(&firsts, |sc| run_node(sc, oracle).map(|n| n.valid).unwrap_or_default());
        for (sc, valid) in firsts.iter().zip(r1) {
            for v in valid {
                let mut s = sc.script.clone();
                s.push(v);
                scripts.push(s);
            }
        }
        let heads: Vec<Vec<u8>> = if protocol >= 4 { vec![vec![0], vec![1]] } else { vec![vec![]] };
        let mut cases: Vec<ScriptCase> = Vec::new();
        for s in &scripts {
            for h in &heads {
                for d in &dict {
                    let mut b = h.clone();
                    b.extend_from_slice(d);
                    cases.push(ScriptCase { protocol, script: s.clone(), entropy: Entropy::Bytes(b), allow_ext: true, allow_buffer: true });
                }
            }
        }
        let results = par_map(&cases, |sc| run_node(sc, oracle).map(|_| ()));
        total += cases.len() as u64;
        for (sc, r) in cases.iter().zip(results.into_iter()) {
            match r {
                Err(f) if f.sig.starts_with("harness:") => unfollowed += 1,
                Err(f) => {
                    let mut st = Stats::default();
                    if ctx.fail(&mut st, f.clone()).is_err() {
                        out.violation = Some(Violation { fail: f, case: json!({"script_case": sc, "script_names": sc.names()}) });
                        out.stats.evaluations += total;
                        return;
                    }
                    out.stats.merge(st);
                }
                Ok(()) => {}
            }
        }
    }
    out.stats.evaluations += total;
    out.stats.add("dictionary sweep: one- and two-opcode programs x boundary words as fuzzer bytes", total);
    out.stats.add("dictionary sweep: programs whose script was not followed (skipped)", unfollowed);
}

/// Programs taller than any 16-bit quantity: an opcode the loop offers on the empty machine (quick tier: MARK; thorough: MARK and five plain value opcodes), repeated 66 000
/// times through the scripted-choice hook (a shape is used only if the loop follows it at height 3), then the free
/// step, the collapse tail and STOP. Judged as a whole by the reference machine (the C01 discipline); no per-step
/// state is recorded, so a run costs a fraction of a second.
pub fn run_tall(ctx: &Ctx, out: &mut Outcome) {
    if out.failed() {
        return;
    }
    const HEIGHT: usize = 66_000;
    let mut cases: Vec<ScriptCase> = Vec::new();
    for protocol in 0u8..=5 {
        let root = ScriptCase { protocol, script: vec![], entropy: Entropy::Bytes(vec![]), allow_ext: true, allow_buffer: true };
        let Ok(n0) = run_node(&root, TreeOracle::C01) else { continue };
        for v in n0.valid {
            // generation is quadratic in the stack depth for every opcode but MARK (about a minute per shape at this
            // height): the quick tier runs the MARK shape only, the thorough tier also five plain value opcodes
            let cheap_values = [t::NONE, t::EMPTY_LIST, t::EMPTY_TUPLE, t::EMPTY_DICT, t::INT];
            if v != t::MARK && !(ctx.thorough() && cheap_values.contains(&v)) {
                continue;
            }
            let probe = ScriptCase { protocol, script: vec![v; 3], entropy: Entropy::Bytes(vec![]), allow_ext: true, allow_buffer: true };
            if run_node(&probe, TreeOracle::C01).is_ok() {
                cases.push(ScriptCase { protocol, script: vec![v; HEIGHT], entropy: Entropy::Bytes(vec![]), allow_ext: true, allow_buffer: true });
            }
        }
    }
    let results = par_map(&cases, |sc| -> Result<bool, Fail> {
        let case = sc.gencase();
        let cfg = TraceCfg { script: sc.script.clone(), fuel: Some(100 * (HEIGHT as u64 + 1) + 10_000), draw_fuel: Some(100_000 * (HEIGHT as u64 + 8)), ..Default::default() };
        let (res, tr) = case.run_traced(cfg, None);
        let o = res.map_err(|e| Fail::new("generation-failed", format!("{} on ({})^{}", e, t::name_of(sc.script[0]), HEIGHT)))?;
        if tr.script_misses != 0 {
            return Ok(false);
        }
        let ops = lexer::lex_py(&o).map_err(|e| Fail::new(format!("undecodable:{}", e.class), format!("({})^{}: {}", t::name_of(sc.script[0]), HEIGHT, e)))?;
        let r = machine::run(&ops);
        if let Some(f) = r.fault {
            return Err(Fail::new(format!("{}:{}", f.class, t::name_of(f.code)), format!("P{} ({})^{} + tail: {}", sc.protocol, t::name_of(sc.script[0]), HEIGHT, f)));
        }
        Ok(true)
    });
    let mut followed = 0u64;
    for (sc, r) in cases.iter().zip(results) {
        match r {
            Ok(true) => {
                followed += 1;
                out.stats.nontrivial(util::digest_str(&format!("tall{}{}", sc.protocol, sc.script[0])));
            }
            Ok(false) => {}
            Err(f) => {
                let mut st = Stats::default();
                if ctx.fail(&mut st, f.clone()).is_err() {
                    // the replay keeps the shape, not 66 000 script bytes
                    out.violation = Some(Violation { fail: f, case: json!({"tall": {"protocol": sc.protocol, "opcode": sc.script[0]}}) });
                    return;
                }
            }
        }
    }
    out.stats.evaluations += cases.len() as u64;
    out.stats.add("tall programs: one opcode repeated 66 000 times, judged by the reference machine", followed);
}

pub fn replay_tall(ctx: &Ctx, v: &serde_json::Value) -> Result<(), Fail> {
    // re-run the whole part (cheap) and report its violation, if any
    let _ = v;
    let mut out = Outcome::new("");
    run_tall(ctx, &mut out);
    match out.violation {
        Some(v) => Err(v.fail),
        None => Ok(()),
    }
}

pub fn replay(ctx: &Ctx, sc: &ScriptCase, oracle: TreeOracle) -> Result<(), Fail> {
    let mut st = Stats::default();
    match run_node(sc, oracle) {
        Ok(_) => Ok(()),
        Err(f) => ctx.fail(&mut st, f),
    }
}

#[allow(dead_code)]
fn _u(_: verif::Trace) {}
