//! C15: the mutation rate is honoured at 0.0 and 1.0 — direct mutator calls (props::direct) and
//! whole generations observed through spy mutators.

use crate::analysis::{analyze, Want};
use crate::case::{Entropy, GenCase, Profile, RateMode, SpyEvent, UnsafeMode, ValKind};
use crate::props::direct::{self, applicable, pushed_kind, Call, Pushed, Val};
use crate::runner::{run_prop, Ctx, Fail, Outcome, Stats};
use crate::util;
use serde_json::json;

fn probe_val(kind: ValKind, empty: bool, emitted: Option<u8>) -> Val {
    match kind {
        ValKind::Int => Val::Int(5),
        ValKind::Long => Val::Long(5),
        ValKind::Float => Val::Float(1.5f64.to_bits()),
        ValKind::Str => Val::Str(if empty { String::new() } else { "x".into() }),
        ValKind::Bytes => Val::Bytes(if empty { vec![] } else { vec![1] }),
        ValKind::Memo => Val::Memo(3),
        ValKind::Post => Val::Post { prefix: vec![], emission: emitted.map(|b| vec![b]).unwrap_or_default(), again: 0 },
    }
}

/// model of the dispatch loop: which spy events must be seen for this list at this rate
pub fn judge_events(c: &GenCase, ev: &[SpyEvent]) -> Result<(usize, usize), Fail> {
    judge_events_counted(c, ev).map(|(v, f, _)| (v, f))
}

/// as `judge_events`, also returning how many values of each kind were offered
pub fn judge_events_counted(c: &GenCase, ev: &[SpyEvent]) -> Result<(usize, usize, std::collections::BTreeMap<&'static str, usize>), Fail> {
    let mut offered: std::collections::BTreeMap<&'static str, usize> = std::collections::BTreeMap::new();
    let n = c.mutators.len();
    let rate = c.rate.effective();
    let mut i = 0usize;
    let mut values = 0usize;
    let mut fired_total = 0usize;
    while i < ev.len() {
        let e0 = &ev[i];
        if e0.idx != 0 {
            return Err(Fail::new("dispatch:order", format!("event #{} starts a value with mutator index {}", i, e0.idx)));
        }
        values += 1;
        *offered.entry(kind_name(e0.kind)).or_insert(0) += 1;
        if e0.kind == ValKind::Post {
            for j in 0..n {
                let Some(e) = ev.get(i + j) else {
                    return Err(Fail::new("dispatch:post-incomplete", format!("post_process reached only {} of {} mutators", j, n)));
                };
                if e.idx != j || e.kind != ValKind::Post {
                    return Err(Fail::new("dispatch:post-order", format!("event #{}: expected post_process of mutator {}, saw {:?} of {}", i + j, j, e.kind, e.idx)));
                }
                let v = probe_val(ValKind::Post, e.empty_in, e.emitted);
                let app = applicable(c.mutators[j], c.unsafe_mutations, &v);
                let lenient = matches!(&v, Val::Post { emission, .. } if pushed_kind(emission) == Pushed::Lenient);
                if rate == 0.0 && (e.fired || e.changed) {
                    return Err(Fail::new(
                        format!("rate0-rewrote:{}", c.mutators[j].cli_name()),
                        format!("{} rewrote an emission ({:?}) at rate 0.0", c.mutators[j].cli_name(), e.emitted),
                    ));
                }
                if rate == 1.0 && app && !e.fired && !lenient {
                    return Err(Fail::new(
                        format!("rate1-no-rewrite:{}", c.mutators[j].cli_name()),
                        format!("{} left value-pushing emission {:?} alone at rate 1.0", c.mutators[j].cli_name(), e.emitted),
                    ));
                }
                if !app && !lenient && (e.fired || e.changed) {
                    return Err(Fail::new(
                        format!("post-acted:{}", c.mutators[j].cli_name()),
                        format!("{} rewrote emission {:?} although it is not applicable", c.mutators[j].cli_name(), e.emitted),
                    ));
                }
                if e.fired {
                    fired_total += 1;
                }
            }
            i += n;
            continue;
        }
        let kind = e0.kind;
        let v = probe_val(kind, e0.empty_in, None);
        let expected = (0..n).find(|j| applicable(c.mutators[*j], c.unsafe_mutations, &v));
        let mut j = 0usize;
        loop {
            let Some(e) = ev.get(i + j) else {
                return Err(Fail::new("dispatch:incomplete", format!("{:?} value reached only {} of {} mutators and none fired", kind, j, n)));
            };
            if e.idx != j || e.kind != kind {
                return Err(Fail::new(
                    "dispatch:order",
                    format!("event #{}: expected {:?} call of mutator {}, saw {:?} of mutator {}", i + j, kind, j, e.kind, e.idx),
                ));
            }
            let name = c.mutators[j].cli_name();
            if rate == 0.0 && e.fired {
                return Err(Fail::new(format!("rate0-fired:{}:{:?}", name, kind), format!("{} mutated a {:?} value at rate 0.0", name, kind)));
            }
            if rate == 1.0 {
                if Some(j) == expected {
                    if !e.fired {
                        return Err(Fail::new(
                            format!("rate1-not-fired:{}:{:?}", name, kind),
                            format!("{} (first applicable mutator, index {}) did not mutate a {:?} value at rate 1.0", name, j, kind),
                        ));
                    }
                } else if e.fired {
                    return Err(Fail::new(
                        format!("fired-not-applicable:{}:{:?}", name, kind),
                        format!("{} mutated a {:?} value (empty={}) it is not documented to act on", name, kind, e.empty_in),
                    ));
                }
            }
            if e.fired {
                fired_total += 1;
                j += 1;
                break;
            }
            j += 1;
            if j == n {
                break;
            }
        }
        i += j;
    }
    Ok((values, fired_total, offered))
}

fn kind_name(k: ValKind) -> &'static str {
    match k {
        ValKind::Int => "int",
        ValKind::Long => "long",
        ValKind::Float => "float",
        ValKind::Str => "string",
        ValKind::Bytes => "bytes",
        ValKind::Memo => "memo-index",
        ValKind::Post => "emission",
    }
}

/// which kind of value the generator draws (and must offer to the mutators) for a chosen opcode
fn drawn_kind(code: u8) -> Option<&'static str> {
    use crate::refpvm::optable as t;
    match code {
        t::INT | t::LONG | t::LONG1 | t::LONG4 | t::BININT | t::BININT1 | t::BININT2 => Some("int"),
        t::FLOAT | t::BINFLOAT => Some("float"),
        t::STRING | t::UNICODE | t::SHORT_BINUNICODE | t::BINUNICODE | t::BINUNICODE8 => Some("string"),
        t::BINSTRING | t::SHORT_BINSTRING | t::SHORT_BINBYTES | t::BINBYTES | t::BINBYTES8 | t::BYTEARRAY8 => Some("bytes"),
        t::GET | t::BINGET | t::LONG_BINGET => Some("memo-index"),
        _ => None,
    }
}

pub fn check_gen(ctx: &Ctx, c: &GenCase, st: &mut Stats) -> Result<(), Fail> {
    let a = analyze(c, Want { spy: true, steps: true, ..Default::default() });
    if a.result.is_err() {
        st.label("generation-failed(skipped; C09 decides)");
        return Ok(());
    }
    let rate = c.rate.effective();
    st.label(if rate == 0.0 { "generation at rate 0" } else { "generation at rate 1" });
    match judge_events_counted(c, &a.spy) {
        Err(f) => ctx.fail(st, f.with_output(a.output().unwrap())),
        Ok((values, fired, offered)) => {
            // every value the generator draws for a chosen opcode must have been offered to the mutators
            // (a value that silently bypasses the chain is "not mutated" at rate 1.0 without any call to see)
            let mut drawn: std::collections::BTreeMap<&'static str, usize> = std::collections::BTreeMap::new();
            let mut body = 0usize;
            for s in a.trace.steps.iter().filter(|s| s.phase == pickle_fuzzer::verif::PHASE_BODY) {
                body += 1;
                if let Some(k) = drawn_kind(s.opcode) {
                    *drawn.entry(k).or_insert(0) += 1;
                }
            }
            drawn.insert("emission", body);
            for (k, n) in &drawn {
                let got = offered.get(k).copied().unwrap_or(0);
                if got != *n {
                    return ctx.fail(
                        st,
                        Fail::new(
                            format!("values-not-offered:{}", k),
                            format!("{}: {} {} value(s) were drawn for the chosen opcodes but {} were offered to the registered mutators", c.brief(), n, k, got),
                        )
                        .with_output(a.output().unwrap()),
                    );
                }
            }
            // a memo index that a mutator changed must be the one that is written (unsafe mode: nothing validates
            // it; only the operand width limits it): the k-th GET-family opcode of the output carries the value
            // returned for the k-th memo index offered
            if c.unsafe_mutations && rate == 1.0 && !c.mutators.contains(&crate::case::MutK::Typeconfusion) {
                if let Ok(ops) = crate::refpvm::lexer::lex_py(a.output().unwrap()) {
                    use crate::refpvm::optable as t;
                    let gets: Vec<(u8, i128)> = ops
                        .iter()
                        .filter(|o| [t::GET, t::BINGET, t::LONG_BINGET].contains(&o.code()))
                        .filter_map(|o| match o.arg {
                            crate::refpvm::lexer::ArgVal::Int(v) => Some((o.code(), v)),
                            _ => None,
                        })
                        .collect();
                    // one group of memo events per offered index: the last event of a group is the one that fired (if any)
                    let mut groups: Vec<Option<usize>> = Vec::new();
                    for e in a.spy.iter().filter(|e| e.kind == ValKind::Memo) {
                        if e.idx == 0 {
                            groups.push(None);
                        }
                        if let (Some(g), Some((_, Some(r)))) = (groups.last_mut(), e.memo_io) {
                            if e.fired {
                                *g = Some(r);
                            }
                        }
                    }
                    if gets.len() == groups.len() {
                        for (k, ((code, operand), g)) in gets.iter().zip(groups.iter()).enumerate() {
                            let Some(r) = g else { continue };
                            let want = match *code {
                                t::BINGET => (*r).min(255) as i128,
                                t::LONG_BINGET => (*r).min(u32::MAX as usize) as i128,
                                _ => *r as i128,
                            };
                            if *operand != want {
                                return ctx.fail(
                                    st,
                                    Fail::new(
                                        format!("memo-index-not-used:{}", t::name_of(*code)),
                                        format!(
                                            "{}: the {}th memo read ({}) was offered to the mutators, the first applicable one returned {}, but the opcode carries {} (expected {})",
                                            c.brief(), k, t::name_of(*code), r, operand, want
                                        ),
                                    )
                                    .with_output(a.output().unwrap()),
                                );
                            }
                        }
                        st.label("unsafe mode: every mutated memo index is the one written");
                    }
                }
            }
            // the spies only observe: the same case with the registered mutators unwrapped must give the same
            // bytes (otherwise the unwrapped mutators were not offered the same values, or a different one of
            // them mutated a value, and the counts above say nothing about them)
            if let Ok(bare) = c.run() {
                if bare[..] != a.output().unwrap()[..] {
                    return ctx.fail(
                        st,
                        Fail::new(
                            "unwrapped-mutators-differ",
                            format!(
                                "{}: the registered mutators, each wrapped in a delegating observer, were offered every value and the first applicable one fired ({} values, {} mutations) - but the same generation with the mutators unwrapped gives different bytes",
                                c.brief(),
                                values,
                                fired
                            ),
                        )
                        .with_output(&bare),
                    );
                }
                st.label("unwrapped run byte-identical to the observed run");
            }
            st.add("values / emissions offered to mutators", values as u64);
            st.add("mutations applied", fired as u64);
            let bytes_mode = matches!(c.entropy, Entropy::Bytes(_));
            if bytes_mode {
                st.label("fuzzer-bytes mode");
            }
            if values > 0 && bytes_mode {
                st.nontrivial(util::digest(a.output().unwrap()) ^ c.mutators.len() as u64);
                st.sample(|| json!({"case": c.brief(), "values_offered": values, "mutations_applied": fired}));
            }
            Ok(())
        }
    }
}

pub fn run(ctx: &Ctx) -> Outcome {
    let mut out = Outcome::new(
        "(a) direct calls: every mutator x every value-kind method and post_process x rate in {0.0, 1.0} x entropy source (PRNG seeds; fuzzer \
         byte strings incl. empty, short, and strings whose first f64 is +-0, NaN, +-inf, negative, > 1, subnormal). Oracle: rate 0 -> None / \
         false and bytes untouched; rate 1 -> fires whenever the mutator is applicable to the value. (b) whole generations with rate in \
         {0,1}, >= 1 mutator, both entropy modes, observed through spy mutators that wrap the real ones: rate 0 -> no value mutated and no \
         emission rewritten; rate 1 -> each value is mutated by the first applicable mutator of the list (model of the dispatch loop). \
         Non-trivial = (a) first gate draw outside (0,1) or exhausted source, (b) fuzzer-bytes generation that offered >= 1 value.",
    );
    let r = run_prop(ctx, 1, ctx.n(300_000, 9_000_000), || direct::call_strategy(vec![0.0, 1.0]), |c: &Call, st: &mut Stats| {
        direct::check_c15_direct(ctx, c, st)
    });
    out.absorb(r);
    if out.failed() {
        return out;
    }
    let mut p = Profile::full();
    p.unsafe_mode = UnsafeMode::Draw;
    p.rate = RateMode::Extremes;
    p.need_mutator = true;
    let r = run_prop(ctx, 2, ctx.n(30_000, 900_000), || crate::case::gencase(&p), |c: &GenCase, st: &mut Stats| check_gen(ctx, c, st));
    out.absorb(r);
    out
}
