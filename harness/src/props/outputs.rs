//! Properties decided from the returned bytes (+ trace counters): C01–C06, C10, C11.

use crate::analysis::{self, analyze, Analysis, Want, GETS, MARK_CONSUMERS, PUTS, TYPED};
use crate::case::{self, Entropy, GenCase, MutK, Profile, RateMode, SizeMode, UnsafeMode};
use crate::pyoracle;
use crate::refpvm::lexer;
use crate::refpvm::optable as t;
use crate::runner::{run_prop, Ctx, Fail, Outcome, Stats, Violation};
use crate::util;
use pickle_fuzzer::verif;
use serde_json::json;
use std::sync::Mutex;

pub type Judge = fn(&GenCase, &Analysis, &mut Stats) -> Result<bool, Fail>;

fn common_labels(case: &GenCase, a: &Analysis, st: &mut Stats) {
    st.label(&format!("protocol={}", case.protocol));
    match &case.entropy {
        Entropy::Seed(_) => st.label("entropy=seed"),
        Entropy::Bytes(b) => {
            st.label("entropy=bytes");
            if b.is_empty() {
                st.label("entropy=bytes/empty");
            } else if b.len() < 16 {
                st.label("entropy=bytes/short(<16)");
            }
        }
    }
    if case.min_opcodes > case.max_opcodes {
        st.label("range:min>max");
    }
    if case.min_opcodes == case.max_opcodes {
        st.label("range:min==max");
    }
    if case.max_opcodes.max(case.min_opcodes) >= 3000 {
        st.label("range:large(>=3000)");
    }
    if !case.mutators.is_empty() {
        st.label("mutators>=1");
        let r = case.rate.effective();
        if r == 1.0 {
            st.label("mutators>=1,rate=1");
        } else if r == 0.0 {
            st.label("mutators>=1,rate=0");
        }
    }
    if case.unsafe_mutations {
        st.label("unsafe");
    }
    if case.allow_ext {
        st.label("allow_ext");
    }
    if case.allow_buffer {
        st.label("allow_buffer");
    }
    if a.trace.use_frame {
        st.label("framed");
    }
    if case.prior_calls > 0 {
        st.label("judged call ran on a reused generator");
    }
    if let Some(r) = &a.run {
        if r.memo_size >= 256 {
            st.label("memo>=256");
        }
    }
    if a.count(t::READONLY_BUFFER) > 0 {
        st.label("has READONLY_BUFFER");
    }
    if a.result.is_err() {
        st.label("generation-failed(skipped; C09 decides)");
    }
}

fn sample_json(case: &GenCase, a: &Analysis) -> serde_json::Value {
    let out = a.output().unwrap_or(&[]);
    let names: Vec<&str> = a.ops.as_ref().map(|o| o.iter().take(24).map(|x| x.info.name).collect()).unwrap_or_default();
    json!({
        "case": case.brief(),
        "output_len": out.len(),
        "opcodes": a.n_ops(),
        "first_opcodes": names,
        "output_head_hex": util::hex(&out[..out.len().min(48)]),
    })
}

/// generic driver for an output-based property
#[allow(clippy::too_many_arguments)]
pub fn drive(
    ctx: &Ctx,
    out: &mut Outcome,
    purpose: u64,
    profile: &Profile,
    cases: u64,
    want: Want,
    judge: Judge,
    py_sample: Option<(usize, fn(&pyoracle::PyVerdict) -> bool, fn(&Analysis) -> bool)>,
) {
    if out.failed() {
        return;
    }
    let py_n = py_sample.map(|(n, _, _)| n as u64).unwrap_or(0);
    let sampled: Mutex<Vec<(GenCase, Vec<u8>, bool)>> = Mutex::new(Vec::new());
    let r = run_prop(
        ctx,
        purpose,
        cases,
        || case::gencase(profile),
        |c: &GenCase, st: &mut Stats| {
            let a = analyze(c, want);
            common_labels(c, &a, st);
            if a.result.is_err() {
                return Ok(());
            }
            let nontrivial = match judge(c, &a, st) {
                Ok(nt) => nt,
                Err(f) => {
                    let f = match a.output() {
                        Some(o) => f.with_output(o),
                        None => f,
                    };
                    ctx.fail(st, f)?;
                    false
                }
            };
            if nontrivial {
                st.nontrivial(util::digest(a.output().unwrap()));
                st.sample(|| sample_json(c, &a));
            }
            if let Some((_, _, ref_ok)) = py_sample {
                // deterministic sampling by case digest (independent of thread scheduling)
                if util::digest_str(&c.brief()) % cases.max(1) < py_n {
                    sampled.lock().unwrap().push((c.clone(), a.output().unwrap().to_vec(), ref_ok(&a)));
                }
            }
            Ok(())
        },
    );
    out.absorb(r);
    if out.failed() {
        return;
    }
    // literal oracle on the sample
    if let Some((_, py_ok, _)) = py_sample {
        let mut s = sampled.into_inner().unwrap();
        s.sort_by(|a, b| a.0.brief().cmp(&b.0.brief()));
        let outputs: Vec<Vec<u8>> = s.iter().map(|x| x.1.clone()).collect();
        match pyoracle::dis_batch(ctx, &outputs) {
            Err(e) => out.inconclusive = Some(format!("python oracle unavailable: {}", e)),
            Ok(verdicts) => {
                out.stats.add("python-oracle: outputs judged by CPython pickletools", verdicts.len() as u64);
                let mut agree = 0u64;
                for ((c, o, ref_ok), v) in s.iter().zip(verdicts.iter()) {
                    let p_ok = py_ok(v);
                    if p_ok == *ref_ok {
                        agree += 1;
                    } else if !p_ok && *ref_ok {
                        // CPython rejects what the reference machine accepted: the literal oracle wins
                        let f = Fail::new(
                            "pickletools-rejects",
                            format!("CPython pickletools rejects an output the reference machine accepted: genops={} dis={}", v.genops, v.dis),
                        )
                        .with_output(o);
                        if !ctx.known.is_known(&ctx.prop, &f.sig) {
                            out.violation = Some(Violation { fail: f, case: serde_json::to_value(c).unwrap() });
                            return;
                        }
                    } else {
                        out.inconclusive = Some(format!(
                            "reference machine is stricter than CPython pickletools on case {} (harness defect, not a violation)",
                            c.brief()
                        ));
                        return;
                    }
                }
                out.stats.add("python-oracle: verdicts agreeing with the reference machine", agree);
            }
        }
    }
}

// ------------------------------------------------------------------------------------------
// C01
// ------------------------------------------------------------------------------------------

fn ref_c01_ok(a: &Analysis) -> bool {
    a.ops.is_ok() && a.run.as_ref().map_or(false, |r| r.fault.is_none())
}

pub fn judge_c01(_c: &GenCase, a: &Analysis, st: &mut Stats) -> Result<bool, Fail> {
    match &a.ops {
        Err(e) => return Err(Fail::new(format!("undecodable:{}:{}", e.class, e.code.map(t::name_of).unwrap_or("-")), e.to_string())),
        Ok(_) => {}
    }
    let r = a.run.as_ref().unwrap();
    st.add("fixed-arity opcode consumed a MARK as operand (statistic, allowed)", r.mark_consumed_as_operand as u64);
    if let Some(f) = &r.fault {
        return Err(Fail::new(format!("{}:{}", f.class, t::name_of(f.code)), f.to_string()));
    }
    Ok(a.n_ops() >= 20 && a.has_any(MARK_CONSUMERS))
}

pub fn run_c01(ctx: &Ctx) -> Outcome {
    let mut out = Outcome::new(
        "GenCase by construction (protocol 0-5; PRNG seed or fuzzer bytes incl. empty/constant/short; opcode ranges incl. 0, min>max, \
         default, 300-1500, 3000-8000; ordered subsets of the 7 mutators created in safe mode; rate in [0,1]; allow_ext/allow_buffer drawn), \
         unsafe_mutations=false. Oracle: independent flat-stack reference machine (pickletools.dis rules) accepts the returned bytes; \
         plus CPython pickletools.dis itself on a sample; plus bounded enumeration of the generator's decision tree. \
         Non-trivial = >= 20 opcodes and >= 1 MARK-consuming opcode; distinct by digest of the output.",
    );
    let mut p = Profile::safe();
    p.size = SizeMode::WithLarge;
    let want = Want { machine: true, ..Default::default() };
    let n_py = ctx.n(3000, 60000) as usize;
    drive(ctx, &mut out, 1, &p, ctx.n(60_000, 3_000_000), want, judge_c01, Some((n_py, |v| v.dis_ok(), ref_c01_ok)));
    // buffer opcodes on protocol 5 are the rarest interesting class: dedicated batch
    let mut p5 = Profile::safe();
    p5.protocols = vec![5];
    drive(ctx, &mut out, 2, &p5, ctx.n(15_000, 500_000), want, judge_c01, None);
    // very long programs: exhausted / constant fuzzer bytes make every choice fall back to the same
    // index, which leaves tens of thousands of items for the collapse phase
    if !out.failed() {
        let sizes: &[usize] = if ctx.thorough() { &[10_500, 20_500, 30_000, 50_000] } else { &[10_500, 20_500] };
        let mut items = vec![];
        for p in 0u8..=5 {
            for &n in sizes {
                for bytes in [vec![], vec![0xffu8; 32]] {
                    let mut c = GenCase::default_for(p, 0);
                    c.min_opcodes = n;
                    c.max_opcodes = n;
                    c.entropy = Entropy::Bytes(bytes);
                    items.push(c);
                }
            }
        }
        let (st, found) = crate::runner::run_enum(items, |c, st| {
            st.label("very long program (>= 10 500 opcodes) from exhausted / constant bytes");
            replay_judge(ctx, judge_c01, want, c)
        });
        out.stats.merge(st);
        if let Some((c, f)) = found {
            out.violation = Some(Violation { fail: f, case: serde_json::to_value(&c).unwrap() });
        }
    }
    crate::props::tree::run_tree(ctx, &mut out, ctx.n(3, 5) as usize, crate::props::tree::TreeOracle::C01);
    crate::props::tree::run_tall(ctx, &mut out);
    out.assumptions = vec![
        "reference semantics = CPython pickletools.dis flat stack (MARK is an ordinary element), not a real unpickler".into(),
        "refpvm opcode table equals pickletools.opcodes of the installed CPython (checked at setup and by `pfverif selftest`)".into(),
    ];
    history_shards(ctx, &mut out, ctx.n(2_000, 40_000));
    out
}

// ------------------------------------------------------------------------------------------
// C02
// ------------------------------------------------------------------------------------------

pub fn judge_c02(c: &GenCase, a: &Analysis, st: &mut Stats) -> Result<bool, Fail> {
    let Ok(_) = &a.ops else {
        st.label("undecodable(skipped; C04 decides)");
        return Ok(false);
    };
    let r = a.run.as_ref().unwrap();
    if let Some(f) = &r.fault {
        if f.class.starts_with("memo-") {
            return Err(Fail::new(format!("{}:{}", f.class, t::name_of(f.code)), f.to_string()));
        }
        st.label("non-memo fault before end (skipped; C01 decides)");
        return Ok(false);
    }
    let gets = GETS.iter().map(|g| a.count(*g)).sum::<u32>();
    let puts = PUTS.iter().map(|g| a.count(*g)).sum::<u32>();
    st.add("GET-family opcodes checked", gets as u64);
    st.add("PUT-family opcodes checked", puts as u64);
    let memo_mut_rate1 = c.rate.effective() == 1.0
        && c.mutators.first().map_or(false, |m| matches!(m, MutK::Offbyone | MutK::Memoindex))
        || (c.rate.effective() == 1.0 && c.mutators.iter().any(|m| matches!(m, MutK::Offbyone | MutK::Memoindex)));
    if gets >= 1 && r.memo_size >= 256 {
        st.label("nontrivial: GET with memo>=256");
    }
    if gets >= 1 && memo_mut_rate1 {
        st.label("nontrivial: GET under memo-index mutator at rate 1");
    }
    Ok(gets >= 1 && (r.memo_size >= 256 || memo_mut_rate1))
}

pub fn run_c02(ctx: &Ctx) -> Outcome {
    let mut out = Outcome::new(
        "Safe GenCases weighted to (a) 3000-8000 opcodes (memo well beyond 256 entries) and (b) OffByOne / MemoIndex(safe) first in the \
         mutator list at rate 1.0, (c) 16 programs of 34 000..40 000 opcodes (memo beyond 2048 entries). Oracle: reference machine memo rules (GET defined earlier, PUT-family index fresh, PUT-family operand \
         exists and is not MARK). Non-trivial = >= 1 GET-family opcode and (memo >= 256 entries or a memo-index mutator at rate 1.0).",
    );
    let want = Want { machine: true, ..Default::default() };
    let mut large = Profile::safe();
    large.size = SizeMode::Large;
    large.favour = vec![MutK::Offbyone, MutK::Memoindex];
    large.favour_pct = 40;
    drive(ctx, &mut out, 1, &large, ctx.n(4_000, 200_000), want, judge_c02, None);
    let mut small = Profile::safe();
    small.favour = vec![MutK::Memoindex, MutK::Offbyone];
    small.favour_pct = 60;
    small.rate = RateMode::Extremes;
    small.need_mutator = true;
    drive(ctx, &mut out, 2, &small, ctx.n(30_000, 1_000_000), want, judge_c02, None);
    let mut small2 = Profile::safe();
    small2.favour = vec![MutK::Offbyone, MutK::Memoindex];
    small2.favour_pct = 60;
    drive(ctx, &mut out, 3, &small2, ctx.n(10_000, 300_000), want, judge_c02, None);
    // a few programs whose memo passes every power of two up to 2048 entries (34 000..40 000 opcodes; ~2 200..2 700
    // memo entries), one generation per protocol and entropy mode
    let mut huge = Profile::safe();
    huge.size = SizeMode::Range(34_000, 40_000);
    huge.favour_pct = 0;
    drive(ctx, &mut out, 4, &huge, ctx.n(16, 200), want, judge_c02, None);
    if !out.failed() && out.inconclusive.is_none() {
        if out.stats.get("nontrivial: GET with memo>=256") == 0 || out.stats.get("nontrivial: GET under memo-index mutator at rate 1") == 0 {
            out.inconclusive = Some("a required class (memo>=256 / memo mutator at rate 1) was not produced".into());
        }
    }
    history_shards(ctx, &mut out, ctx.n(1_500, 30_000));
    out
}

// ------------------------------------------------------------------------------------------
// C03
// ------------------------------------------------------------------------------------------

pub fn judge_c03(_c: &GenCase, a: &Analysis, st: &mut Stats) -> Result<bool, Fail> {
    let Ok(_) = &a.ops else {
        st.label("undecodable(skipped; C04 decides)");
        return Ok(false);
    };
    let r = a.run.as_ref().unwrap();
    if let Some(k) = r.kind_faults.first() {
        return Err(Fail::new(format!("{}:{}", k.class, t::name_of(k.code)), k.to_string()));
    }
    for c in TYPED {
        let n = a.count(*c);
        if n > 0 {
            st.add(&format!("typed opcode {}", t::name_of(*c)), n as u64);
        }
    }
    st.add("typed operands that arrived through GET", r.operands_from_get as u64);
    st.add("typed operands that arrived through DUP", r.operands_from_dup as u64);
    Ok(a.has_any(TYPED))
}

pub fn run_c03(ctx: &Ctx) -> Outcome {
    let mut out = Outcome::new(
        "Safe GenCases (as C01) plus bounded breadth-first enumeration of the generator's own decision tree through the scripted-choice \
         hook. Oracle: kind-tracking reference machine; the operand kinds required by APPEND(S)/SETITEM(S)/ADDITEMS/DICT/STACK_GLOBAL/REDUCE/ \
         NEWOBJ/NEWOBJ_EX/BUILD/OBJ/DUP as listed in the property; kinds left open by the format (PERSID, EXT, STRING family) count as Any. \
         Non-trivial = output contains >= 1 typed opcode; distinct by digest of the output.",
    );
    let want = Want { machine: true, ..Default::default() };
    let mut p = Profile::safe();
    p.size = SizeMode::WithLarge;
    drive(ctx, &mut out, 1, &p, ctx.n(60_000, 3_000_000), want, judge_c03, None);
    crate::props::tree::run_tree(ctx, &mut out, ctx.n(4, 5) as usize, crate::props::tree::TreeOracle::C03);
    history_shards(ctx, &mut out, ctx.n(2_000, 40_000));
    out
}

// ------------------------------------------------------------------------------------------
// C04
// ------------------------------------------------------------------------------------------

fn ref_c04_ok(a: &Analysis) -> bool {
    a.ops.is_ok()
}

pub fn judge_c04(c: &GenCase, a: &Analysis, st: &mut Stats) -> Result<bool, Fail> {
    if let Some(e) = &a.c04 {
        return Err(Fail::new(format!("{}:{}", e.class, e.code.map(t::name_of).unwrap_or("-")), e.to_string()));
    }
    let textual = a.has_any(&[
        t::STRING, t::UNICODE, t::BINUNICODE, t::SHORT_BINUNICODE, t::BINUNICODE8, t::BINSTRING, t::SHORT_BINSTRING, t::BINBYTES,
        t::SHORT_BINBYTES, t::BINBYTES8, t::BYTEARRAY8, t::INT, t::LONG, t::FLOAT, t::GLOBAL, t::INST, t::PERSID, t::LONG1, t::LONG4,
    ]);
    let active = !c.mutators.is_empty() && c.rate.effective() > 0.0;
    let ext = a.has_any(&[t::EXT1, t::EXT2, t::EXT4]);
    if ext {
        st.label("has EXT*");
    }
    if a.count(t::FLOAT) > 0 && active && c.mutators.contains(&MutK::Boundary) {
        st.label("FLOAT under boundary mutator");
    }
    if (a.count(t::STRING) > 0 || a.count(t::UNICODE) > 0) && active && (c.mutators.contains(&MutK::Character) || c.mutators.contains(&MutK::Stringlen)) {
        st.label("STRING/UNICODE under string mutators");
    }
    Ok((textual && active) || ext || c.unsafe_mutations)
}

pub fn run_c04(ctx: &Ctx) -> Outcome {
    let mut out = Outcome::new(
        "Full GenCases (unsafe_mutations drawn, all 7 mutators incl. TypeConfusion / MemoIndex(unsafe), rates incl. out-of-range through the \
         public field, both opt-in flags). Oracle: independent lexer over the CPython opcode table with pickletools' argument readers plus \
         EXT code >= 1 (EXT4 as signed int4), memo index >= 0, exactly one STOP as last byte; plus CPython pickletools.genops on a sample. \
         Non-trivial = (textual/variable-length argument under an active mutator) or EXT* present or unsafe mode; distinct by output digest.",
    );
    let mut p = Profile::full();
    p.rate = RateMode::Wild;
    p.size = SizeMode::WithLarge;
    let n_py = ctx.n(3000, 40000) as usize;
    drive(ctx, &mut out, 1, &p, ctx.n(60_000, 3_000_000), Want::default(), judge_c04, Some((n_py, |v| v.genops_ok(), ref_c04_ok)));
    // string / bytes mutators at rate 1.0, text protocols
    let mut ptxt = Profile::full();
    ptxt.rate = RateMode::Extremes;
    ptxt.favour = vec![MutK::Character, MutK::Stringlen, MutK::Boundary];
    ptxt.favour_pct = 70;
    ptxt.need_mutator = true;
    ptxt.protocols = vec![0, 0, 1, 2, 4, 5];
    drive(ctx, &mut out, 2, &ptxt, ctx.n(20_000, 1_000_000), Want::default(), judge_c04, None);
    // value-dependent corners of single emitters: boundary words as fuzzer bytes behind scripted opcodes
    crate::props::tree::run_dict(ctx, &mut out, crate::props::tree::TreeOracle::C04);
    history_shards(ctx, &mut out, ctx.n(2_000, 40_000));
    out
}

// ------------------------------------------------------------------------------------------
// C05
// ------------------------------------------------------------------------------------------

pub fn judge_c05(c: &GenCase, a: &Analysis, st: &mut Stats) -> Result<bool, Fail> {
    let Ok(ops) = &a.ops else {
        st.label("undecodable(skipped; C04 decides)");
        return Ok(false);
    };
    let p = c.protocol;
    for op in ops {
        if op.info.proto > p {
            return Err(Fail::new(
                format!("newer-opcode:{}@P{}", op.info.name, p),
                format!("protocol {} output contains {} (introduced in protocol {}) at offset {}", p, op.info.name, op.info.proto, op.pos),
            ));
        }
    }
    let protos = a.count(t::PROTO);
    if p >= 2 {
        let first = &ops[0];
        if first.code() != t::PROTO || first.int() != Some(p as i128) {
            return Err(Fail::new("proto-header", format!("protocol {} output does not start with PROTO {}", p, p)));
        }
        if protos != 1 {
            return Err(Fail::new("proto-count", format!("{} PROTO opcodes", protos)));
        }
    } else if protos != 0 {
        return Err(Fail::new("proto-in-old-protocol", format!("protocol {} output contains PROTO", p)));
    }
    if p == 0 {
        if let Some(i) = a.output().unwrap().iter().position(|b| *b >= 0x80) {
            return Err(Fail::new("p0-not-ascii", format!("protocol 0 output has byte {:#x} at offset {}", a.output().unwrap()[i], i)));
        }
    }
    let ints = a.has_any(&[t::INT, t::LONG, t::BININT, t::BININT1, t::BININT2, t::LONG1, t::LONG4]);
    if a.trace.tail_steps >= 2 {
        st.label("collapse tail >= 2 opcodes");
    }
    Ok(a.trace.tail_steps >= 2 || ints)
}

pub fn run_c05(ctx: &Ctx) -> Outcome {
    let mut out = Outcome::new(
        "Safe GenCases over all protocols; tiny ranges ((0,0), 0-20) are weighted up so outputs dominated by the collapse tail occur. Oracle: \
         every decoded opcode's introduced-in protocol (independent table) <= P; P>=2: first opcode PROTO P and no other PROTO; P<2: no \
         PROTO; P=0: every byte < 0x80. Non-trivial = collapse tail of >= 2 opcodes (from the trace) or >= 1 integer opcode.",
    );
    let p = Profile::safe();
    drive(ctx, &mut out, 1, &p, ctx.n(50_000, 1_500_000), Want::default(), judge_c05, None);
    let mut tiny = Profile::safe();
    tiny.size = SizeMode::Tiny;
    drive(ctx, &mut out, 2, &tiny, ctx.n(20_000, 500_000), Want::default(), judge_c05, None);
    crate::props::tree::run_dict(ctx, &mut out, crate::props::tree::TreeOracle::C05);
    // two (thorough: twelve) very long programs: a simulated stack of tens of thousands of slots
    if !out.failed() {
        let mut items: Vec<GenCase> = Vec::new();
        let protos: Vec<u8> = if ctx.thorough() { (0u8..=5).collect() } else { vec![0, 1] };
        for p in protos {
            for (k, n) in (if ctx.thorough() { vec![64_000usize, 100_000] } else { vec![64_000usize] }).into_iter().enumerate() {
                let mut c = GenCase::default_for(p, ctx.seed ^ 0xb16 ^ ((p as u64) << 8) ^ k as u64);
                c.min_opcodes = n;
                c.max_opcodes = n;
                items.push(c);
            }
        }
        let (st, found) = crate::runner::run_enum(items, |c, st| {
            st.label("program of 64 000+ opcodes");
            let a = analyze(c, Want::default());
            match judge_c05(c, &a, st) {
                Ok(_) => {
                    st.nontrivial(crate::util::digest_str(&c.brief()));
                    Ok(())
                }
                Err(f) => ctx.fail(st, f),
            }
        });
        out.stats.merge(st);
        if let Some((c, f)) = found {
            out.violation = Some(Violation { fail: f, case: serde_json::to_value(&c).unwrap() });
        }
    }
    history_shards(ctx, &mut out, ctx.n(3_000, 60_000));
    out
}

// ------------------------------------------------------------------------------------------
// C06
// ------------------------------------------------------------------------------------------

pub fn judge_c06(c: &GenCase, a: &Analysis, st: &mut Stats) -> Result<bool, Fail> {
    let Ok(ops) = &a.ops else {
        // the stream does not decode (C04's business) - but for P>=4 bytes 0..2 are PROTO, so byte 2 is an
        // opcode position: a FRAME there must still carry its 8-byte length and that length must be exact
        let out = a.output().unwrap();
        if c.protocol >= 4 && out.len() >= 3 && out[0] == t::PROTO && out[2] == t::FRAME {
            if out.len() < 11 {
                return Err(Fail::new("frame-truncated", format!("FRAME opcode at offset 2 of a {}-byte output has no 8-byte length", out.len())));
            }
            let mut w = [0u8; 8];
            w.copy_from_slice(&out[3..11]);
            let declared = u64::from_le_bytes(w);
            if declared != (out.len() - 11) as u64 {
                return Err(Fail::new("frame-length", format!("FRAME length {} but {} bytes follow its argument (stream is otherwise undecodable)", declared, out.len() - 11)));
            }
        }
        st.label("undecodable(skipped; C04 decides)");
        return Ok(false);
    };
    let frames: Vec<usize> = ops.iter().enumerate().filter(|(_, o)| o.code() == t::FRAME).map(|(i, _)| i).collect();
    if c.protocol < 4 {
        if !frames.is_empty() {
            return Err(Fail::new("frame-in-old-protocol", format!("protocol {} output contains FRAME", c.protocol)));
        }
        return Ok(false);
    }
    if a.output().map_or(0, |o| o.len()) > 65536 {
        st.label("P>=4 output longer than 64 KiB");
    }
    if frames.len() > 1 {
        return Err(Fail::new("frame-count", format!("{} FRAME opcodes", frames.len())));
    }
    let out = a.output().unwrap();
    if let Some(&i) = frames.first() {
        let f = &ops[i];
        if i != 1 || ops[0].code() != t::PROTO || f.pos != 2 {
            return Err(Fail::new("frame-position", format!("FRAME is opcode #{} at offset {}", i, f.pos)));
        }
        let want = out.len() as i128 - (f.pos + f.len) as i128;
        if f.int() != Some(want) {
            return Err(Fail::new(
                "frame-length",
                format!("FRAME length {} but {} bytes follow its argument", f.int().unwrap_or(-1), want),
            ));
        }
        st.label("framed output checked");
        let rewrote = c.unsafe_mutations && c.mutators.contains(&MutK::Typeconfusion) && c.rate.effective() > 0.0;
        if rewrote {
            st.label("framed + unsafe type-confusion active");
        }
        return Ok(rewrote || a.trace.body_steps >= 20);
    }
    st.label("unframed P>=4 output");
    Ok(false)
}

pub fn run_c06(ctx: &Ctx) -> Outcome {
    let mut out = Outcome::new(
        "Full GenCases incl. unsafe mutations (TypeConfusion rewriting emitted bytes). Oracle on the decoded stream: P<4 no FRAME; P>=4 at \
         most one FRAME, if present it is opcode #1 at offset 2 right after PROTO and its argument == len(output) - 11. Non-trivial = framed \
         and (unsafe type-confusion active or body >= 20 opcodes).",
    );
    let mut p = Profile::full();
    p.rate = RateMode::Wild;
    drive(ctx, &mut out, 1, &p, ctx.n(40_000, 1_200_000), Want::default(), judge_c06, None);
    let mut p45 = Profile::full();
    p45.protocols = vec![4, 5];
    p45.unsafe_mode = UnsafeMode::Always;
    p45.favour = vec![MutK::Typeconfusion];
    p45.favour_pct = 80;
    drive(ctx, &mut out, 2, &p45, ctx.n(20_000, 800_000), Want::default(), judge_c06, None);
    // long framed bodies (tens to hundreds of KiB): the length field beyond 16-bit sizes
    let mut big = Profile::full();
    big.protocols = vec![4, 5];
    big.size = SizeMode::Range(6000, 14000);
    drive(ctx, &mut out, 3, &big, ctx.n(400, 20_000), Want::default(), judge_c06, None);
    history_shards(ctx, &mut out, ctx.n(2_000, 40_000));
    out
}

// ------------------------------------------------------------------------------------------
// C10
// ------------------------------------------------------------------------------------------

pub fn judge_c10(c: &GenCase, a: &Analysis, st: &mut Stats) -> Result<bool, Fail> {
    let Ok(_) = &a.ops else {
        st.label("undecodable(skipped; C04 decides)");
        return Ok(false);
    };
    if !c.allow_ext {
        for e in [t::EXT1, t::EXT2, t::EXT4] {
            if a.count(e) > 0 {
                return Err(Fail::new(format!("ext-without-flag:{}", t::name_of(e)), format!("{} in output although EXT opcodes were not enabled", t::name_of(e))));
            }
        }
    }
    if !c.allow_buffer {
        for e in [t::NEXT_BUFFER, t::READONLY_BUFFER] {
            if a.count(e) > 0 {
                return Err(Fail::new(
                    format!("buffer-without-flag:{}", t::name_of(e)),
                    format!("{} in output although buffer opcodes were not enabled", t::name_of(e)),
                ));
            }
        }
    }
    st.label(&format!("flags ext={} buffer={}", c.allow_ext as u8, c.allow_buffer as u8));
    if c.allow_ext && a.has_any(&[t::EXT1, t::EXT2, t::EXT4]) {
        st.label("EXT present with flag on (generator does use them)");
    }
    if c.allow_buffer && a.has_any(&[t::NEXT_BUFFER, t::READONLY_BUFFER]) {
        st.label("buffer opcode present with flag on");
    }
    let nt_ext = !c.allow_ext && c.protocol >= 2 && a.n_ops() >= 60;
    let nt_buf = !c.allow_buffer && c.protocol == 5 && a.n_ops() >= 60;
    Ok(nt_ext || nt_buf)
}

pub fn run_c10(ctx: &Ctx) -> Outcome {
    let mut out = Outcome::new(
        "Full GenCases incl. unsafe mutations; allow_ext / allow_buffer drawn independently. Oracle: decoded histogram has no EXT1/2/4 unless \
         allow_ext and no NEXT_BUFFER/READONLY_BUFFER unless allow_buffer. Non-trivial = flag off while the opcode is in the protocol's \
         vocabulary (P>=2 resp. P=5) and the output has >= 60 opcodes.",
    );
    let mut p = Profile::full();
    p.rate = RateMode::Wild;
    drive(ctx, &mut out, 1, &p, ctx.n(60_000, 2_000_000), Want::default(), judge_c10, None);
    // the same property through the command-line tool (single-file and batch mode): the flags must reach
    // the generator they belong to
    if !out.failed() {
        match crate::props::frontends::build_cli(ctx) {
            Err(e) => out.inconclusive = Some(e),
            Ok(cli) => {
                let n = ctx.n(160, 2400) as usize;
                // direct invocations and invocations through the action wrapper script
                let mut cli_cases = crate::props::frontends::materialise(&crate::props::frontends::cli_strategy(false), ctx.seed, 101, n);
                cli_cases.extend(crate::props::frontends::materialise(&crate::props::frontends::cli_strategy(true), ctx.seed, 102, n / 2));
                let items: Vec<(usize, crate::props::frontends::CliCase)> = cli_cases
                    .into_iter()
                    .map(|mut c| {
                        // protocols where the opcodes exist, so that a wrongly forwarded flag shows
                        if c.protocol.map_or(true, |p| p < 2) {
                            c.protocol = Some(5);
                        }
                        if let crate::props::frontends::Mode::Batch { fault_at, .. } = &mut c.mode {
                            *fault_at = None;
                        }
                        c.fault_devfull = false;
                        c
                    })
                    .enumerate()
                    .collect();
                let (st, found) = crate::runner::run_enum(items, |(i, c), st| crate::props::frontends::check_cli_flags(ctx, &cli, c, *i, st));
                out.stats.merge(st);
                if let Some(((_, c), f)) = found {
                    if f.sig.starts_with("harness:") {
                        out.inconclusive = Some(f.msg);
                    } else {
                        out.violation = Some(Violation { fail: f, case: json!({"cli_case": c}) });
                    }
                }
            }
        }
    }
    history_shards(ctx, &mut out, ctx.n(3_000, 60_000));
    out
}

// ------------------------------------------------------------------------------------------
// C11
// ------------------------------------------------------------------------------------------

pub fn judge_c11(c: &GenCase, a: &Analysis, st: &mut Stats) -> Result<bool, Fail> {
    let tr = &a.trace;
    let (min, max) = (c.min_opcodes, c.max_opcodes);
    let t_ = tr.target_opcodes;
    if !tr.started {
        return Err(Fail::new("no-trace", "generation did not reach the body loop"));
    }
    if max <= min {
        if t_ != min {
            return Err(Fail::new("target-degenerate", format!("T={} but min={} max={}", t_, min, max)));
        }
    } else if t_ < min || t_ > max {
        return Err(Fail::new("target-out-of-range", format!("T={} not in [{}, {}]", t_, min, max)));
    }
    if tr.body_steps != t_ {
        return Err(Fail::new("body-steps", format!("{} body emissions for T={}", tr.body_steps, t_)));
    }
    if tr.tail_steps > 2 * t_ + 1 {
        return Err(Fail::new("tail-too-long", format!("collapse tail of {} opcodes for T={}", tr.tail_steps, t_)));
    }
    if tr.stop_steps != 1 {
        return Err(Fail::new("stop-count", format!("{} STOP emissions", tr.stop_steps)));
    }
    let out = a.output().unwrap();
    // every body step contributed exactly one complete opcode
    let mut prev = tr.header_len;
    let mut body_seen = 0usize;
    for (i, s) in tr.steps.iter().enumerate() {
        if s.out_len <= prev {
            return Err(Fail::new("step-emitted-nothing", format!("step {} ({}) emitted no bytes", i, t::name_of(s.opcode))));
        }
        if s.out_len > out.len() {
            return Err(Fail::new("step-beyond-output", format!("step {} ends at {} > output length {}", i, s.out_len, out.len())));
        }
        match lexer::lex_one(&out[..s.out_len], prev) {
            Ok(op) if prev + op.len == s.out_len => {}
            Ok(op) => {
                return Err(Fail::new(
                    "step-not-one-opcode",
                    format!("step {} wrote {} bytes but its first opcode {} spans {}", i, s.out_len - prev, op.info.name, op.len),
                ))
            }
            Err(e) => return Err(Fail::new("step-undecodable", format!("step {}: {}", i, e))),
        }
        if s.phase == verif::PHASE_BODY {
            body_seen += 1;
        }
        prev = s.out_len;
    }
    if body_seen != t_ {
        return Err(Fail::new("body-steps", format!("{} body steps recorded for T={}", body_seen, t_)));
    }
    if prev != out.len() {
        return Err(Fail::new("bytes-after-stop", format!("{} bytes after the last recorded emission", out.len() - prev)));
    }
    let Ok(ops) = &a.ops else {
        st.label("undecodable(skipped; C04 decides)");
        return Ok(false);
    };
    let header = ops.iter().take_while(|o| o.pos < tr.header_len).count();
    if header > 2 {
        return Err(Fail::new("header-too-long", format!("{} header opcodes", header)));
    }
    if ops.len() != header + t_ + tr.tail_steps + 1 {
        return Err(Fail::new(
            "opcode-count-mismatch",
            format!("{} decoded opcodes != header {} + T {} + tail {} + STOP", ops.len(), header, t_, tr.tail_steps),
        ));
    }
    let hi = 3 * min.max(max) + 4;
    if ops.len() < min + 1 || ops.len() > hi {
        return Err(Fail::new("opcode-count-bounds", format!("{} opcodes not in [{}, {}]", ops.len(), min + 1, hi)));
    }
    if max > min + 1 {
        if t_ == min {
            st.label("T == min (lower end hit)");
        }
        if t_ == max - 1 {
            st.label("T == max-1 (upper end hit)");
        }
        if t_ == max {
            st.label("T == max");
        }
    }
    Ok(max > min + 1 && t_ >= 1)
}

pub fn run_c11(ctx: &Ctx) -> Outcome {
    let mut out = Outcome::new(
        "Full GenCases, all (min,max) shapes incl. equal / inverted / zero. Oracle from the trace hook: min <= T <= max (T = min if max <= min), \
         exactly T body emissions, each emission's byte range decodes as exactly one opcode, tail <= 2T+1, one STOP, header <= 2 opcodes, \
         decoded count = header + T + tail + 1 and within [min+1, 3*max(min,max)+4]. Non-trivial = max > min+1 and T >= 1.",
    );
    let mut p = Profile::full();
    p.rate = RateMode::Wild;
    let want = Want { steps: true, ..Default::default() };
    drive(ctx, &mut out, 1, &p, ctx.n(50_000, 1_500_000), want, judge_c11, None);
    let mut tiny = Profile::full();
    tiny.size = SizeMode::Tiny;
    drive(ctx, &mut out, 2, &tiny, ctx.n(20_000, 500_000), want, judge_c11, None);
    out.extra.insert(
        "range_ends".into(),
        json!({"T==min": out.stats.get("T == min (lower end hit)"), "T==max-1": out.stats.get("T == max-1 (upper end hit)"), "T==max": out.stats.get("T == max")}),
    );
    if !out.failed() {
        target_probe(ctx, &mut out, ctx.n(40_000, 1_000_000) as usize);
    }
    history_shards(ctx, &mut out, ctx.n(2_000, 40_000));
    out
}

/// C11, wide ranges: a range of 2^16 .. usize::MAX opcodes cannot be generated to the end in a check (a pickle of
/// 66 000 opcodes takes half a minute), but the draw of T can be observed: the generation is started with an
/// emission budget of a few opcodes (hook `fuel`), which ends it shortly after the target was recorded by the trace
/// hook. Oracle: min <= T <= max for the T the generator committed itself to. Non-trivial = the range is wider
/// than 65 535.
fn target_probe(ctx: &Ctx, out: &mut Outcome, n: usize) {
    use proptest::prelude::*;
    let width = prop_oneof![
        4 => 65_536usize..200_000,
        2 => (16u32..63).prop_map(|k| 1usize << k),
        2 => (16u32..63, 0usize..70_000).prop_map(|(k, d)| (1usize << k) + d),
        1 => (17u32..64, 1usize..70_000).prop_map(|(k, d)| (1usize << k) - d),
        1 => 1usize..65_536,
    ];
    let min = prop_oneof![3 => 0usize..400, 1 => Just(0usize), 1 => 0usize..1 << 40];
    let entropy = prop_oneof![
        2 => any::<u64>().prop_map(Entropy::Seed),
        3 => crate::case::bytes_entropy().prop_map(Entropy::Bytes),
        1 => proptest::collection::vec(prop_oneof![Just(0u8), Just(0xffu8), Just(1u8), Just(0x80u8), any::<u8>()], 0..24).prop_map(Entropy::Bytes),
    ];
    let strat = (0u8..6, min, width, entropy).boxed();
    let items = crate::props::frontends::materialise(&strat, ctx.seed, 111, n);
    let (st, found) = crate::runner::run_enum(items, |(p, min, width, e), st| {
        let mut c = GenCase::default_for(*p, 0);
        c.entropy = e.clone();
        c.min_opcodes = *min;
        c.max_opcodes = min.saturating_add(*width);
        let Some(t_) = probe_target(&c)? else {
            st.label("wide range: generation ended before the target was drawn (skipped; C09 decides)");
            return Ok(());
        };
        st.add("wide-range target draws judged", 1);
        if *width > 65_535 {
            st.label("wide range (> 65 535): T within [min, max]");
            if t_ - c.min_opcodes > 65_535 {
                st.label("wide range: T - min > 65 535");
            }
            st.nontrivial(crate::util::digest_str(&format!("{} {} {} {}", p, min, width, t_)));
        }
        Ok(())
    });
    out.stats.merge(st);
    if let Some(((p, min, width, e), f)) = found {
        let mut c = GenCase::default_for(p, 0);
        c.entropy = e;
        c.min_opcodes = min;
        c.max_opcodes = min.saturating_add(width);
        out.violation = Some(Violation { fail: f, case: json!({"wide_range_case": c}) });
    }
}

/// starts one generation with an emission budget of a few opcodes and returns the target T it committed itself to
/// (None: it ended before drawing one); Err if T is outside [min, max]
pub fn probe_target(c: &GenCase) -> Result<Option<usize>, Fail> {
    let mut g = c.build(None);
    verif::start(verif::TraceCfg { fuel: Some(24), draw_fuel: Some(2_000_000), ..Default::default() });
    let _ = crate::case::call_gen(&mut g, &c.entropy);
    let tr = verif::take();
    if !tr.started {
        return Ok(None);
    }
    let t_ = tr.target_opcodes;
    if t_ < c.min_opcodes || t_ > c.max_opcodes {
        return Err(Fail::new("target-out-of-range", format!("T={} not in [{}, {}] (range width {})", t_, c.min_opcodes, c.max_opcodes, c.max_opcodes - c.min_opcodes)));
    }
    Ok(Some(t_))
}

pub fn replay_judge(ctx: &Ctx, judge: Judge, want: Want, case: &GenCase) -> Result<(), Fail> {
    let a = analyze(case, want);
    if a.result.is_err() {
        return Ok(());
    }
    let mut st = Stats::default();
    match judge(case, &a, &mut st) {
        Ok(_) => Ok(()),
        Err(f) => {
            let f = f.with_output(a.output().unwrap());
            ctx.fail(&mut st, f)
        }
    }
}

pub fn judge_for(prop: &str) -> Option<(Judge, Want)> {
    let m = Want { machine: true, ..Default::default() };
    match prop {
        "C01" => Some((judge_c01, m)),
        "C02" => Some((judge_c02, m)),
        "C03" => Some((judge_c03, m)),
        "C04" => Some((judge_c04, Want::default())),
        "C05" => Some((judge_c05, Want::default())),
        "C06" => Some((judge_c06, Want::default())),
        "C10" => Some((judge_c10, Want::default())),
        "C11" => Some((judge_c11, Want { steps: true, ..Default::default() })),
        _ => None,
    }
}

#[allow(dead_code)]
fn _unused(_: &analysis::Analysis) {}


// ------------------------------------------------------------------------------------------
// process-history shards
// ------------------------------------------------------------------------------------------

/// the profile a property's shard uses (its main generated domain)
pub fn shard_profile(prop: &str) -> Profile {
    let mut p = match prop {
        "C01" | "C02" | "C03" | "C05" | "C17" => Profile::safe(),
        _ => Profile::full(),
    };
    if matches!(prop, "C04" | "C06" | "C10" | "C11") {
        p.rate = RateMode::Wild;
    }
    p
}

/// Body of `pfverif shard <prop> <first_protocol> <cases>`: a *fresh process* whose first generations
/// use one chosen protocol with every opt-in feature switched on, followed by a batch of ordinary
/// cases judged by the property's oracle. Catches process-wide state (statics, caches keyed too
/// weakly) that is initialised by the first generator of the process and then leaks into later
/// generators with another protocol or other flags.
pub fn shard_child(ctx: &Ctx, first_protocol: u8, cases: u64) -> i32 {
    for i in 0..6u64 {
        let mut c = GenCase::default_for(first_protocol, i);
        c.allow_ext = true;
        c.allow_buffer = true;
        c.min_opcodes = 200;
        c.max_opcodes = 400;
        if i % 2 == 1 {
            c.mutators = crate::case::ALL_MUTK.to_vec();
            c.rate = crate::case::RateSpec::builder(1.0);
        }
        if i >= 4 {
            c.entropy = Entropy::Bytes(vec![0x5a; 600]);
        }
        let _ = c.run();
    }
    let profile = shard_profile(&ctx.prop);
    let mut out = Outcome::new("");
    if ctx.prop == "C17" {
        let r = run_prop(ctx, 900 + first_protocol as u64, cases, || case::gencase(&profile), |c: &GenCase, st: &mut Stats| crate::props::c17::check_case(ctx, c, st));
        out.absorb(r);
    } else if let Some((judge, want)) = judge_for(&ctx.prop) {
        drive(ctx, &mut out, 900 + first_protocol as u64, &profile, cases, want, judge, None);
    } else {
        return 2;
    }
    let res = json!({
        "evaluations": out.stats.evaluations,
        "nontrivial": out.stats.nontrivial.len(),
        "excluded_known": out.stats.excluded_known,
        "violation": out.violation.as_ref().map(|v| json!({"sig": v.fail.sig, "msg": v.fail.msg, "case": v.case, "output": v.fail.output.as_ref().map(|o| util::hex(o))})),
    });
    println!("SHARD-RESULT {}", res);
    0
}

/// run six shards (first protocol 5,4,3,2,1,0) as child processes and fold their results in
pub fn history_shards(ctx: &Ctx, out: &mut Outcome, cases_per_shard: u64) {
    if out.failed() {
        return;
    }
    let exe = util::self_exe();
    // half of the shards run a build WITHOUT debug assertions and overflow checks (what `cargo build
    // --release` users get): code whose behaviour differs between the two kinds of build - a side effect
    // inside debug_assert!, arithmetic that wraps instead of panicking - is exercised in both
    let plain = match build_plain_harness(ctx) {
        Ok(p) => p,
        Err(e) => {
            out.inconclusive = Some(e);
            return;
        }
    };
    let children: Vec<_> = (0u8..=5)
        .rev()
        .map(|p| {
            let exe: std::path::PathBuf = if p % 2 == 0 { std::path::PathBuf::from(&plain) } else { exe.clone() };
            (
                p,
                std::process::Command::new(&exe)
                    .args(["shard", &ctx.prop, &p.to_string(), &cases_per_shard.to_string()])
                    .env("VERIF_SEED", ctx.seed.to_string())
                    .env("VERIF_DIR", &ctx.verif_dir)
                    .env("VERIF_REPO", &ctx.repo_dir)
                    .stdout(std::process::Stdio::piped())
                    .stderr(std::process::Stdio::null())
                    .spawn(),
            )
        })
        .collect();
    let mut total = 0u64;
    for (p, ch) in children {
        let Ok(ch) = ch else {
            out.inconclusive = Some("cannot spawn a history shard".into());
            return;
        };
        let Ok(o) = ch.wait_with_output() else {
            out.inconclusive = Some("history shard failed".into());
            return;
        };
        let txt = String::from_utf8_lossy(&o.stdout);
        let Some(line) = txt.lines().find_map(|l| l.strip_prefix("SHARD-RESULT ")) else {
            out.inconclusive = Some(format!("history shard (first protocol {}) gave no result (status {})", p, o.status));
            return;
        };
        let v: serde_json::Value = serde_json::from_str(line).unwrap_or(serde_json::Value::Null);
        total += v["evaluations"].as_u64().unwrap_or(0);
        if let Some(viol) = v.get("violation").filter(|x| !x.is_null()) {
            if out.violation.is_none() {
                let mut f = Fail::new(
                    viol["sig"].as_str().unwrap_or("?"),
                    format!(
                        "[fresh process{} whose first generations used protocol {} with all opt-in features on] {}",
                        if p % 2 == 0 { " of the build without debug assertions" } else { "" },
                        p,
                        viol["msg"].as_str().unwrap_or("?")
                    ),
                );
                f.output = viol["output"].as_str().and_then(util::unhex);
                out.violation = Some(Violation { fail: f, case: json!({"shard": {"first_protocol": p, "case": viol["case"]}}) });
            }
        }
    }
    out.stats.evaluations += total;
    out.stats.add("process-history shards: cases judged in 6 fresh processes primed with protocol 5..0 (protocols 4, 2, 0: build without debug assertions)", total);
    out.rule.push_str(
        " Generated cases also vary the reuse history (0-2 earlier generation calls on the same generator, optionally taking the public \
         output buffer in between), the choice among equivalent public API entry points (with_opcode_range vs with_min/max_opcodes vs public \
         fields; with_mutators vs with_mutator; setters restating defaults omitted) and with_buffer_size. Process-history shards: six fresh \
         child processes whose first generations use protocol 5,4,..,0 with all opt-in features on, each followed by a batch of ordinary cases \
         under the same oracle; the shards for protocols 4, 2 and 0 run a build without debug assertions / overflow checks.",
    );
}

/// `pfverif shard-one <prop> <first_protocol> <casefile>`: prime like a shard, then judge one case
pub fn shard_one(ctx: &Ctx, first_protocol: u8, path: &str) -> i32 {
    for i in 0..6u64 {
        let mut c = GenCase::default_for(first_protocol, i);
        c.allow_ext = true;
        c.allow_buffer = true;
        c.min_opcodes = 200;
        c.max_opcodes = 400;
        if i % 2 == 1 {
            c.mutators = crate::case::ALL_MUTK.to_vec();
            c.rate = crate::case::RateSpec::builder(1.0);
        }
        if i >= 4 {
            c.entropy = Entropy::Bytes(vec![0x5a; 600]);
        }
        let _ = c.run();
    }
    let Ok(b) = std::fs::read(path) else { return 2 };
    let Ok(v) = serde_json::from_slice::<serde_json::Value>(&b) else { return 2 };
    let mut strict = ctx.clone();
    strict.strict = true;
    match crate::replay::judge_value(&strict, &v) {
        Ok(()) => 0,
        Err(f) if f.sig.starts_with("harness:") => 2,
        Err(f) => {
            println!("SHARD-FAIL {}", json!({"sig": f.sig, "msg": f.msg}));
            1
        }
    }
}

pub fn replay_shard(ctx: &Ctx, sh: &serde_json::Value) -> Result<(), Fail> {
    let p = sh["first_protocol"].as_u64().unwrap_or(5) as u8;
    let path = format!("{}/work/shard-one-{}.json", ctx.verif_dir, std::process::id());
    std::fs::write(&path, serde_json::to_vec(&sh["case"]).unwrap()).map_err(|e| Fail::new("harness:io", e.to_string()))?;
    let exe: std::path::PathBuf = if p % 2 == 0 { std::path::PathBuf::from(build_plain_harness(ctx).map_err(|e| Fail::new("harness:build", e))?) } else { util::self_exe() };
    let o = std::process::Command::new(exe)
        .args(["shard-one", &ctx.prop, &p.to_string(), &path])
        .env("VERIF_DIR", &ctx.verif_dir)
        .env("VERIF_REPO", &ctx.repo_dir)
        .output()
        .map_err(|e| Fail::new("harness:spawn", e.to_string()))?;
    let _ = std::fs::remove_file(&path);
    match o.status.code() {
        Some(0) => Ok(()),
        Some(1) => {
            let txt = String::from_utf8_lossy(&o.stdout);
            let v: serde_json::Value = txt.lines().find_map(|l| l.strip_prefix("SHARD-FAIL ")).and_then(|l| serde_json::from_str(l).ok()).unwrap_or(serde_json::Value::Null);
            let mut st = Stats::default();
            ctx.fail(&mut st, Fail::new(v["sig"].as_str().unwrap_or("?"), v["msg"].as_str().unwrap_or("?")))
        }
        _ => Err(Fail::new("harness:shard", "shard-one child failed")),
    }
}

/// build the harness (and the repository crate) in the `plainrel` profile: optimised, no debug
/// assertions, no overflow checks - cargo's plain `--release` semantics
pub fn build_plain_harness(ctx: &Ctx) -> Result<String, String> {
    let out = std::process::Command::new("cargo")
        .args(["build", "--offline", "--profile", "plainrel", "--bin", "pfverif"])
        .current_dir(format!("{}/harness", ctx.verif_dir))
        .env("CARGO_NET_OFFLINE", "true")
        .output()
        .map_err(|e| format!("cargo: {}", e))?;
    if !out.status.success() {
        return Err(format!("building the plain-release harness failed: {}", String::from_utf8_lossy(&out.stderr).lines().rev().take(10).collect::<Vec<_>>().join(" | ")));
    }
    Ok(format!("{}/target/harness/plainrel/pfverif", ctx.verif_dir))
}
