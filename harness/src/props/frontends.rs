//! C13: the command-line tool (single-file and batch mode), the GitHub-action wrapper script and
//! the Python bindings must return exactly what the library returns for the corresponding
//! configuration. The option -> configuration mapping below is written from README / --help /
//! action.yml, not from src/main.rs.

use crate::case::{Entropy, GenCase, MutK, RateSpec, ALL_MUTK};
use crate::refpvm::lexer;
use crate::runner::{run_enum, Ctx, Fail, Outcome, Stats, Violation};
use crate::util;
use proptest::prelude::*;
use proptest::strategy::ValueTree;
use proptest::test_runner::{Config, RngAlgorithm, TestRng, TestRunner};
use serde::{Deserialize, Serialize};
use serde_json::json;
use std::process::{Command, Stdio};

// ------------------------------------------------------------------------------------------
// building the front ends from /repo's working tree
// ------------------------------------------------------------------------------------------

pub fn build_cli(ctx: &Ctx) -> Result<String, String> {
    let target = format!("{}/target/repo-cli", ctx.verif_dir);
    let out = Command::new("cargo")
        .args(["build", "--release", "--offline", "--bin", "pickle-fuzzer", "--target-dir", &target])
        .current_dir(&ctx.repo_dir)
        .env("CARGO_NET_OFFLINE", "true")
        .output()
        .map_err(|e| format!("cargo: {}", e))?;
    if !out.status.success() {
        return Err(format!("building the CLI failed: {}", String::from_utf8_lossy(&out.stderr).lines().rev().take(15).collect::<Vec<_>>().join(" | ")));
    }
    Ok(format!("{}/release/pickle-fuzzer", target))
}

/// builds the extension module and lays out an importable package; returns its parent dir
pub fn build_python(ctx: &Ctx) -> Result<String, String> {
    let target = format!("{}/target/repo-py", ctx.verif_dir);
    let out = Command::new("cargo")
        .args(["build", "--release", "--offline", "--lib", "--features", "python-bindings", "--target-dir", &target])
        .current_dir(&ctx.repo_dir)
        .env("CARGO_NET_OFFLINE", "true")
        .output()
        .map_err(|e| format!("cargo: {}", e))?;
    if !out.status.success() {
        return Err(format!("building the Python extension failed: {}", String::from_utf8_lossy(&out.stderr).lines().rev().take(15).collect::<Vec<_>>().join(" | ")));
    }
    let parent = format!("{}/work/pypkg", ctx.verif_dir);
    let pkg = format!("{}/pickle_fuzzer", parent);
    let _ = std::fs::remove_dir_all(&parent);
    std::fs::create_dir_all(&pkg).map_err(|e| e.to_string())?;
    for f in ["__init__.py", "fuzzer.py", "_native.pyi"] {
        std::fs::copy(format!("{}/python/pickle_fuzzer/{}", ctx.repo_dir, f), format!("{}/{}", pkg, f)).map_err(|e| format!("copy {}: {}", f, e))?;
    }
    std::fs::copy(format!("{}/release/libpickle_fuzzer.so", target), format!("{}/_native.so", pkg)).map_err(|e| format!("copy .so: {}", e))?;
    Ok(parent)
}

// ------------------------------------------------------------------------------------------
// CLI / wrapper cases
// ------------------------------------------------------------------------------------------

#[derive(Clone, Debug, PartialEq, Serialize, Deserialize)]
pub enum MutSpec {
    None,
    /// names as given on the command line ("all" allowed), and whether each gets its own flag
    Names { names: Vec<String>, repeated_flags: bool },
}

#[derive(Clone, Debug, PartialEq, Serialize, Deserialize)]
pub enum Mode {
    Single,
    Batch { samples: usize, fault_at: Option<usize> },
}

#[derive(Clone, Debug, PartialEq, Serialize, Deserialize)]
pub enum Via {
    Cli,
    /// scripts/action-run.sh with INPUT_* variables; `sep` separates mutator names, `truthy` is the
    /// spelling used for enabled flags
    Wrapper { sep: String, truthy: String },
    /// scripts/action-run.sh with the raw `args` input (INPUT_ARGS), which it word-splits and passes on
    WrapperArgs,
}

/// names of the output directory / file inside a case's scratch directory (an underscore, a dot and a
/// hyphen: characters a front end might treat specially)
pub const OUT_DIR: &str = "out_dir.d-1";
pub const OUT_FILE: &str = "one_file-1.pkl";

#[derive(Clone, Debug, PartialEq, Serialize, Deserialize)]
pub struct CliCase {
    pub protocol: Option<u8>,
    pub seed: Option<u64>,
    pub min: Option<usize>,
    pub max: Option<usize>,
    pub mutators: MutSpec,
    pub rate: Option<String>,
    pub unsafe_mutations: bool,
    pub allow_ext: bool,
    pub allow_buffer: bool,
    pub mode: Mode,
    pub rayon_threads: u8,
    pub via: Via,
    /// use the documented short options -p / -d / -s
    #[serde(default)]
    pub short_opts: bool,
    /// the output file(s) already exist with other, longer content (a re-run into the same path)
    #[serde(default)]
    pub preexisting: bool,
    /// the injected fault is a path that can be opened but not written (a symlink to /dev/full: ENOSPC)
    /// instead of a directory in the way; in single-file mode the output file itself is that path
    #[serde(default)]
    pub fault_devfull: bool,
    /// long options are written `--option=value` (one token) instead of `--option value`
    #[serde(default)]
    pub eq_form: bool,
    /// spelling of the output path: 0 absolute, 1 relative to the working directory (a bare name), 2 `./name`
    #[serde(default)]
    pub rel_path: u8,
    /// spelling of the numeric values (seed, opcode counts, samples): 0 plain, 1 leading zeros, 2 leading plus sign
    #[serde(default)]
    pub num_style: u8,
    /// a switch that is off is passed as `--switch=<word>` with a word that means "off" (0 = not passed at all);
    /// the tool may refuse that spelling, but must not read it as "on"
    #[serde(default)]
    pub off_switch_word: u8,
}

fn mutk_by_name(n: &str) -> Option<MutK> {
    ALL_MUTK.iter().copied().find(|m| m.cli_name() == n)
}

impl CliCase {
    /// my reading of the documentation: the library configuration this invocation corresponds to
    pub fn reference(&self) -> Option<GenCase> {
        let seed = self.seed?;
        let protocol = match self.protocol {
            Some(p) => p,
            None => (seed % 6) as u8,
        };
        let mutators: Vec<MutK> = match &self.mutators {
            MutSpec::None => vec![],
            MutSpec::Names { names, .. } => {
                if names.iter().any(|n| n == "all") {
                    let mut v = vec![MutK::Bitflip, MutK::Boundary, MutK::Offbyone, MutK::Stringlen, MutK::Character, MutK::Typeconfusion];
                    if self.unsafe_mutations {
                        v.push(MutK::Memoindex);
                    }
                    v
                } else {
                    names.iter().filter_map(|n| mutk_by_name(n)).collect()
                }
            }
        };
        let rate: f64 = self.rate.as_ref().and_then(|r| r.parse().ok()).unwrap_or(0.1);
        Some(GenCase {
            protocol,
            entropy: Entropy::Seed(seed),
            min_opcodes: self.min.unwrap_or(60),
            max_opcodes: self.max.unwrap_or(300),
            mutators,
            rate: RateSpec::builder(rate),
            unsafe_mutations: self.unsafe_mutations,
            allow_ext: self.allow_ext,
            allow_buffer: self.allow_buffer,
            prior_calls: 0,
            build_style: 0,
            bufsize: None,
        })
    }

    /// acceptable library outputs (more than one only in the documented-ambiguous corner:
    /// --unsafe-mutations without any mutator)
    pub fn acceptable(&self) -> Vec<Vec<u8>> {
        let Some(r) = self.reference() else { return vec![] };
        let mut v = vec![];
        if let Ok(o) = r.run() {
            v.push(o);
        }
        if r.mutators.is_empty() && r.unsafe_mutations {
            let mut r2 = r.clone();
            r2.unsafe_mutations = false;
            if let Ok(o) = r2.run() {
                if !v.contains(&o) {
                    v.push(o);
                }
            }
        }
        v
    }

    /// a number as the case spells it
    fn num(&self, v: impl std::fmt::Display) -> String {
        match self.num_style % 3 {
            1 => format!("00{}", v),
            2 => format!("+{}", v),
            _ => format!("{}", v),
        }
    }

    pub const OFF_WORDS: [&'static str; 8] = ["", "false", "no", "0", "off", "disabled", "none", "never"];

    /// `--name value` or, with `eq_form`, `--name=value`
    fn opt(&self, a: &mut Vec<String>, name: &str, value: String) {
        if self.eq_form && name.starts_with("--") {
            a.push(format!("{}={}", name, value));
        } else {
            a.extend([name.to_string(), value]);
        }
    }

    fn common_args(&self) -> Vec<String> {
        let mut a: Vec<String> = vec![];
        if let Some(p) = self.protocol {
            self.opt(&mut a, if self.short_opts { "-p" } else { "--protocol" }, p.to_string());
        }
        if let Some(s) = self.seed {
            self.opt(&mut a, "--seed", self.num(s));
        }
        if let Some(m) = self.min {
            self.opt(&mut a, "--min-opcodes", self.num(m));
        }
        if let Some(m) = self.max {
            self.opt(&mut a, "--max-opcodes", self.num(m));
        }
        if let MutSpec::Names { names, repeated_flags } = &self.mutators {
            if *repeated_flags {
                for n in names {
                    self.opt(&mut a, "--mutators", n.clone());
                }
            } else {
                a.push("--mutators".into());
                a.extend(names.iter().cloned());
            }
        }
        if let Some(r) = &self.rate {
            self.opt(&mut a, "--mutation-rate", r.clone());
        }
        let w = Self::OFF_WORDS[self.off_switch_word as usize % Self::OFF_WORDS.len()];
        for (on, flag) in [(self.unsafe_mutations, "--unsafe-mutations"), (self.allow_ext, "--allow-ext"), (self.allow_buffer, "--allow-buffer")] {
            if on {
                a.push(flag.into());
            } else if !w.is_empty() && matches!(self.via, Via::Cli) {
                a.push(format!("{}={}", flag, w));
            }
        }
        a
    }

    pub fn brief(&self) -> String {
        format!(
            "{:?} {:?} {}{}{}",
            self.via,
            self.mode,
            self.common_args().join(" "),
            if self.preexisting { " [output path(s) already exist]" } else { "" },
            if self.fault_devfull { " [fault: unwritable path]" } else { "" }
        )
    }

    pub fn nondefault_options(&self) -> usize {
        [
            self.protocol.is_some(),
            self.min.is_some() || self.max.is_some(),
            self.mutators != MutSpec::None,
            self.rate.is_some(),
            self.unsafe_mutations,
            self.allow_ext,
            self.allow_buffer,
            matches!(self.mode, Mode::Batch { .. }),
            !matches!(self.via, Via::Cli),
        ]
        .iter()
        .filter(|x| **x)
        .count()
    }
}

pub struct RunOut {
    pub status: Option<i32>,
    pub stderr: String,
}

/// run the case in `dir` (fresh); returns exit status
pub fn invoke(ctx: &Ctx, cli: &str, c: &CliCase, dir: &str) -> Result<RunOut, String> {
    let _ = std::fs::remove_dir_all(dir);
    std::fs::create_dir_all(dir).map_err(|e| e.to_string())?;
    let outdir = format!("{}/{}", dir, OUT_DIR);
    let outfile = format!("{}/{}", dir, OUT_FILE);
    if c.preexisting {
        // a previous result at the same path(s): it must be replaced, not kept or partly overwritten. Either a
        // larger file, or (every second seeded case) one of exactly the length the new pickle will have but with
        // other content; a batch directory also holds files that do not belong to this run
        let same_len = c.seed.map_or(false, |s| s % 2 == 1).then(|| c.reference().and_then(|r| r.run().ok()).map(|o| o.len())).flatten();
        let junk = match same_len {
            Some(n) if n > 0 => vec![b'X'; n],
            _ => vec![b'X'; 96 * 1024],
        };
        match &c.mode {
            Mode::Single => std::fs::write(&outfile, &junk).map_err(|e| e.to_string())?,
            Mode::Batch { samples, fault_at } => {
                std::fs::create_dir_all(&outdir).map_err(|e| e.to_string())?;
                for i in 0..*samples {
                    if Some(i) != *fault_at {
                        std::fs::write(format!("{}/{}.pkl", outdir, i), &junk).map_err(|e| e.to_string())?;
                    }
                }
                // leftovers of an earlier, larger run and a file that is no sample at all
                std::fs::write(format!("{}/{}.pkl", outdir, samples + 3), b"N.").map_err(|e| e.to_string())?;
                std::fs::write(format!("{}/hand_written.pkl", outdir), b"N.").map_err(|e| e.to_string())?;
                std::fs::write(format!("{}/README.txt", outdir), b"corpus").map_err(|e| e.to_string())?;
            }
        }
    }
    if let Mode::Batch { fault_at: Some(k), .. } = &c.mode {
        if c.fault_devfull && std::path::Path::new("/dev/full").exists() {
            // injected fault: sample k can be opened but every write to it fails
            std::fs::create_dir_all(&outdir).map_err(|e| e.to_string())?;
            let _ = std::fs::remove_file(format!("{}/{}.pkl", outdir, k));
            std::os::unix::fs::symlink("/dev/full", format!("{}/{}.pkl", outdir, k)).map_err(|e| e.to_string())?;
        } else {
            // injected fault: a directory where sample k must be written
            std::fs::create_dir_all(format!("{}/{}.pkl", outdir, k)).map_err(|e| e.to_string())?;
        }
    }
    if matches!(c.mode, Mode::Single) && c.fault_devfull && std::path::Path::new("/dev/full").exists() {
        let _ = std::fs::remove_file(&outfile);
        std::os::unix::fs::symlink("/dev/full", &outfile).map_err(|e| e.to_string())?;
    }
    // how the paths are spelled on the command line: absolute, bare relative (the process runs in `dir`), ./relative
    let (arg_dir, arg_file) = match c.rel_path % 3 {
        0 => (outdir.clone(), outfile.clone()),
        1 => (OUT_DIR.to_string(), OUT_FILE.to_string()),
        _ => (format!("./{}", OUT_DIR), format!("./{}", OUT_FILE)),
    };
    let mut cmd;
    match &c.via {
        Via::Cli => {
            cmd = Command::new(cli);
            // clap's `--mutators <M>...` takes every following value, so options go first and the
            // positional FILE is separated by `--` (standard usage; what the documentation's
            // grammar `[OPTIONS] [FILE]` allows)
            match &c.mode {
                Mode::Single => {
                    cmd.args(c.common_args());
                    cmd.arg("--");
                    cmd.arg(&arg_file);
                }
                Mode::Batch { samples, .. } => {
                    if c.short_opts {
                        cmd.args(["-d", &arg_dir, "-s", &samples.to_string()]);
                    } else if c.eq_form {
                        cmd.args([format!("--dir={}", arg_dir), format!("--samples={}", samples)]);
                    } else {
                        cmd.args(["--dir", &arg_dir, "--samples", &samples.to_string()]);
                    }
                    cmd.args(c.common_args());
                }
            }
        }
        Via::WrapperArgs => {
            cmd = Command::new("bash");
            cmd.arg(format!("{}/scripts/action-run.sh", ctx.repo_dir));
            for (k, _) in std::env::vars() {
                if k.starts_with("INPUT_") {
                    cmd.env_remove(k);
                }
            }
            let bindir = std::path::Path::new(cli).parent().unwrap().to_string_lossy().to_string();
            cmd.env("PATH", format!("{}:{}", bindir, std::env::var("PATH").unwrap_or_default()));
            let mut a = c.common_args();
            match &c.mode {
                Mode::Single => {
                    a.push("--".into());
                    a.push(arg_file.clone());
                }
                Mode::Batch { samples, .. } => {
                    let mut b = vec!["--dir".to_string(), arg_dir.clone(), "--samples".to_string(), samples.to_string()];
                    b.extend(a);
                    a = b;
                }
            }
            cmd.env("INPUT_ARGS", a.join(if c.seed.map_or(false, |s| s % 3 == 1) { "\n" } else { " " }));
        }
        Via::Wrapper { sep, truthy } => {
            cmd = Command::new("bash");
            cmd.arg(format!("{}/scripts/action-run.sh", ctx.repo_dir));
            for (k, _) in std::env::vars() {
                if k.starts_with("INPUT_") {
                    cmd.env_remove(k);
                }
            }
            let bindir = std::path::Path::new(cli).parent().unwrap().to_string_lossy().to_string();
            cmd.env("PATH", format!("{}:{}", bindir, std::env::var("PATH").unwrap_or_default()));
            match &c.mode {
                Mode::Single => {
                    cmd.env("INPUT_OUTPUT_FILE", &arg_file);
                }
                Mode::Batch { samples, .. } => {
                    cmd.env("INPUT_OUTPUT_DIR", &arg_dir);
                    cmd.env("INPUT_SAMPLES", c.num(samples));
                }
            }
            if let Some(p) = c.protocol {
                cmd.env("INPUT_PROTOCOL", p.to_string());
            }
            if let Some(s) = c.seed {
                cmd.env("INPUT_SEED", c.num(s));
            }
            if let Some(m) = c.min {
                cmd.env("INPUT_MIN_OPCODES", c.num(m));
            }
            if let Some(m) = c.max {
                cmd.env("INPUT_MAX_OPCODES", c.num(m));
            }
            if let MutSpec::Names { names, .. } = &c.mutators {
                cmd.env("INPUT_MUTATORS", names.join(sep));
            }
            if let Some(r) = &c.rate {
                cmd.env("INPUT_MUTATION_RATE", r);
            }
            // a switch that is off: one of the spellings the script does not list as true (its `case` has
            // exactly true|TRUE|True|1|yes|YES|Yes), chosen by the case's seed
            let falsy = ["false", "", "False", "FALSE", "0", "no", "off", "none", "None", "n", "disabled", "10", "tru", "nyes", "false ", " false", "false\n", "false\r", "0 "];
            let pick = (c.seed.unwrap_or(0) as usize).wrapping_add(c.rayon_threads as usize);
            let nth = std::cell::Cell::new(0usize);
            let flag = |on: bool| {
                nth.set(nth.get() + 1);
                if on {
                    truthy.clone()
                } else {
                    falsy[(pick / 3 + nth.get() * 5) % falsy.len()].to_string()
                }
            };
            cmd.env("INPUT_UNSAFE_MUTATIONS", flag(c.unsafe_mutations));
            cmd.env("INPUT_ALLOW_EXT", flag(c.allow_ext));
            cmd.env("INPUT_ALLOW_BUFFER", flag(c.allow_buffer));
        }
    }
    cmd.env("RAYON_NUM_THREADS", c.rayon_threads.max(1).to_string());
    cmd.env("NO_COLOR", "1");
    cmd.current_dir(dir);
    let out = cmd.output().map_err(|e| format!("spawn: {}", e))?;
    Ok(RunOut { status: out.status.code(), stderr: String::from_utf8_lossy(&out.stderr).chars().take(400).collect() })
}

pub fn check_cli(ctx: &Ctx, cli: &str, c: &CliCase, idx: usize, st: &mut Stats) -> Result<(), Fail> {
    let dir = format!("{}/work/c13-{}-{}", ctx.verif_dir, std::process::id(), idx);
    let res = invoke(ctx, cli, c, &dir);
    let r = (|| -> Result<(), Fail> {
        let ro = res.map_err(|e| Fail::new("harness:invoke", e))?;
        let via = match c.via {
            Via::Cli => "cli",
            Via::Wrapper { .. } => "wrapper",
            Via::WrapperArgs => "wrapper-args",
        };
        st.label(&format!("via={}", via));
        if c.off_switch_word as usize % CliCase::OFF_WORDS.len() != 0 && matches!(c.via, Via::Cli) && !(c.unsafe_mutations && c.allow_ext && c.allow_buffer) {
            if ro.status == Some(2) {
                // clap's usage error: the tool does not take a value for its switches
                st.label("`--switch=<off word>` refused with a usage error");
                return Ok(());
            }
            st.label("`--switch=<off word>` accepted");
        }
        let accept = c.acceptable();
        match &c.mode {
            Mode::Single if c.fault_devfull && std::path::Path::new("/dev/full").exists() => {
                st.label("single file with injected write fault (/dev/full)");
                if ro.status == Some(0) {
                    return Err(Fail::new(format!("{}:single:fault-ignored", via), format!("{} exited 0 although nothing could be written to the output file", c.brief())));
                }
                return Ok(());
            }
            Mode::Single => {
                st.label("mode=single");
                if ro.status != Some(0) {
                    return Err(Fail::new(format!("{}:single:exit", via), format!("{} exited with {:?}: {}", c.brief(), ro.status, ro.stderr)));
                }
                let got = std::fs::read(format!("{}/{}", dir, OUT_FILE)).map_err(|_| Fail::new(format!("{}:single:no-file", via), format!("{} exited 0 but wrote no file", c.brief())))?;
                if c.seed.is_some() {
                    if !accept.contains(&got) {
                        return Err(Fail::new(
                            format!("{}:single:bytes", via),
                            format!("{} wrote {} bytes (digest {:016x}); the library returns {} bytes (digest {:016x}) for the corresponding configuration", c.brief(), got.len(), util::digest(&got), accept.first().map_or(0, |a| a.len()), accept.first().map_or(0, |a| util::digest(a))),
                        )
                        .with_output(&got));
                    }
                    st.label("bytes compared with library");
                } else {
                    check_unseeded(c, &got, via)?;
                    st.label("unseeded: decoded + protocol checked");
                }
            }
            Mode::Batch { samples, fault_at } => {
                st.label("mode=batch");
                if let Some(k) = fault_at {
                    if *k < *samples {
                        st.label("batch with injected write fault");
                        if ro.status == Some(0) {
                            return Err(Fail::new(format!("{}:batch:fault-ignored", via), format!("{} exited 0 although sample {} could not be written", c.brief(), k)));
                        }
                        return Ok(());
                    }
                }
                if ro.status != Some(0) {
                    return Err(Fail::new(format!("{}:batch:exit", via), format!("{} exited with {:?}: {}", c.brief(), ro.status, ro.stderr)));
                }
                let mut names: Vec<String> = std::fs::read_dir(format!("{}/{}", dir, OUT_DIR))
                    .map(|d| d.filter_map(|e| e.ok()).map(|e| e.file_name().to_string_lossy().to_string()).collect())
                    .unwrap_or_default();
                names.sort();
                let mut want: Vec<String> = (0..*samples).map(|i| format!("{}.pkl", i)).collect();
                if let Some(k) = fault_at {
                    want.push(format!("{}.pkl", k));
                }
                if c.preexisting {
                    // files of the directory that do not belong to this run stay where and what they are
                    for (f, content) in [(format!("{}.pkl", samples + 3), &b"N."[..]), ("hand_written.pkl".to_string(), &b"N."[..]), ("README.txt".to_string(), &b"corpus"[..])] {
                        let got = std::fs::read(format!("{}/{}/{}", dir, OUT_DIR, f)).unwrap_or_default();
                        if got != content {
                            return Err(Fail::new(format!("{}:batch:foreign-file-touched", via), format!("{}: {} in the output directory does not belong to this run but was changed or removed", c.brief(), f)));
                        }
                        want.push(f);
                    }
                }
                want.sort();
                want.dedup();
                if names != want {
                    return Err(Fail::new(format!("{}:batch:file-set", via), format!("{} wrote files {:?}, expected 0.pkl..{}.pkl", c.brief(), names.iter().take(14).collect::<Vec<_>>(), samples.saturating_sub(1))));
                }
                for i in 0..*samples {
                    let got = std::fs::read(format!("{}/{}/{}.pkl", dir, OUT_DIR, i)).map_err(|e| Fail::new("harness:read", e.to_string()))?;
                    if c.seed.is_some() {
                        if !accept.contains(&got) {
                            return Err(Fail::new(
                                format!("{}:batch:bytes", via),
                                format!("{}: {}.pkl has {} bytes (digest {:016x}); the library returns {} bytes for the corresponding configuration", c.brief(), i, got.len(), util::digest(&got), accept.first().map_or(0, |a| a.len())),
                            )
                            .with_output(&got));
                        }
                    } else {
                        check_unseeded(c, &got, via)?;
                    }
                }
                st.add("batch files compared", *samples as u64);
            }
        }
        if c.nondefault_options() >= 2 {
            st.nontrivial(util::digest_str(&c.brief()));
            st.sample(|| json!({"invocation": c.brief(), "rayon_threads": c.rayon_threads}));
        }
        Ok(())
    })();
    let _ = std::fs::remove_dir_all(&dir);
    match r {
        Ok(()) => Ok(()),
        Err(f) => ctx.fail(st, f),
    }
}

fn check_unseeded(c: &CliCase, got: &[u8], via: &str) -> Result<(), Fail> {
    let ops = lexer::lex(got).map_err(|e| Fail::new(format!("{}:unseeded:undecodable", via), format!("{}: {}", c.brief(), e)))?;
    if let Some(p) = c.protocol {
        if p >= 2 && ops[0].int() != Some(p as i128) {
            return Err(Fail::new(format!("{}:unseeded:protocol", via), format!("{}: output is not a protocol {} pickle", c.brief(), p)));
        }
        if p < 2 && ops[0].code() == crate::refpvm::optable::PROTO {
            return Err(Fail::new(format!("{}:unseeded:protocol", via), format!("{}: output has a PROTO header", c.brief())));
        }
    }
    Ok(())
}

pub fn cli_strategy(wrapper: bool) -> BoxedStrategy<CliCase> {
    let names = prop_oneof![
        3 => Just(MutSpec::None),
        2 => Just(MutSpec::Names { names: vec!["all".into()], repeated_flags: false }),
        4 => (proptest::collection::vec(0usize..7, 1..5), any::<bool>()).prop_map(|(v, rep)| MutSpec::Names { names: v.into_iter().map(|i| ALL_MUTK[i].cli_name().to_string()).collect(), repeated_flags: rep }),
        1 => (0usize..7, any::<bool>()).prop_map(|(i, first)| {
            let other = ALL_MUTK[i].cli_name().to_string();
            MutSpec::Names { names: if first { vec!["all".into(), other] } else { vec![other, "all".into()] }, repeated_flags: false }
        }),
    ];
    let range = prop_oneof![
        3 => Just((None, None)),
        3 => (0usize..40, 0usize..60).prop_map(|(a, b)| (Some(a), Some(b))),
        1 => (0usize..40).prop_map(|a| (Some(a), None)),
        1 => (61usize..400).prop_map(|b| (None, Some(b))),
    ];
    let rate = prop_oneof![
        3 => Just(None),
        1 => Just(Some("0".to_string())),
        2 => Just(Some("1".to_string())),
        1 => Just(Some("1.0".to_string())),
        1 => Just(Some("0.5".to_string())),
        1 => Just(Some("2".to_string())),
        1 => proptest::sample::select(vec!["nan", "NaN", "inf", "1e-9", "0.999999", "1e3"]).prop_map(|x| Some(x.to_string())),
        1 => (0u32..1000).prop_map(|x| Some(format!("0.{:03}", x))),
    ];
    let mode = prop_oneof![
        3 => Just(Mode::Single),
        3 => (0usize..12).prop_map(|n| Mode::Batch { samples: n, fault_at: None }),
        1 => (1usize..12, 0usize..12).prop_map(|(n, k)| Mode::Batch { samples: n, fault_at: Some(k % n) }),
    ];
    let via = if wrapper {
        prop_oneof![
            5 => (
                proptest::sample::select(vec![",".to_string(), " ".to_string(), ", ".to_string()]),
                proptest::sample::select(vec!["true".to_string(), "TRUE".into(), "True".into(), "1".into(), "yes".into(), "YES".into(), "Yes".into()]),
            )
                .prop_map(|(sep, truthy)| Via::Wrapper { sep, truthy }),
            1 => Just(Via::WrapperArgs),
        ]
        .boxed()
    } else {
        Just(Via::Cli).boxed()
    };
    (
        (proptest::option::weighted(0.6, 0u8..6), proptest::option::weighted(0.9, any::<u64>()), range, names),
        (rate, any::<bool>(), any::<bool>(), any::<bool>(), mode, proptest::sample::select(vec![1u8, 2, 5, 16]), via, proptest::bool::weighted(0.3), proptest::bool::weighted(0.25), (any::<bool>(), proptest::bool::weighted(0.06), proptest::bool::weighted(0.3), prop_oneof![3 => Just(0u8), 1 => Just(1u8), 1 => Just(2u8)], prop_oneof![4 => Just(0u8), 1 => Just(1u8), 1 => Just(2u8)], prop_oneof![5 => Just(0u8), 2 => 1u8..8])),
    )
        .prop_map(|((protocol, seed, (min, max), mutators), (rate, u, e, b, mode, rayon_threads, via, short_opts, preexisting, (fault_devfull, single_fault, eq_form, rel_path, num_style, off_switch_word)))| {
            let single = mode_is_single(&mode);
            CliCase {
            protocol,
            seed,
            min,
            max,
            mutators,
            rate,
            unsafe_mutations: u,
            allow_ext: e,
            allow_buffer: b,
            mode,
            rayon_threads,
            via,
            short_opts,
            // in batch mode this selects the kind of the injected fault (if any); in single-file mode a
            // small share of the cases write to an unwritable path
            fault_devfull: if single { single_fault } else { fault_devfull },
            preexisting: preexisting && !(single && single_fault),
            eq_form,
            rel_path,
            num_style,
            off_switch_word,
            }
        })
        .boxed()
}

fn mode_is_single(m: &Mode) -> bool {
    matches!(m, Mode::Single)
}

/// materialise `n` values of a strategy deterministically
pub fn materialise<T: std::fmt::Debug>(s: &BoxedStrategy<T>, seed: u64, purpose: u64, n: usize) -> Vec<T> {
    let rng = TestRng::from_seed(RngAlgorithm::ChaCha, &util::seed_bytes(seed, 0, purpose));
    let mut runner = TestRunner::new_with_rng(Config { failure_persistence: None, ..Config::default() }, rng);
    (0..n).map(|_| s.new_tree(&mut runner).expect("strategy").current()).collect()
}

// ------------------------------------------------------------------------------------------
// Python sequences
// ------------------------------------------------------------------------------------------

#[derive(Clone, Debug, PartialEq, Serialize, Deserialize)]
pub enum PyOp {
    SetRange(usize, usize),
    Generate,
    #[serde(with = "crate::case::hexbytes")]
    FromBytes(Vec<u8>),
    /// generate_from_bytes with another bytes-like carrier of the same logical bytes: 1 bytearray, 2 memoryview,
    /// 3 a strided memoryview (every second byte of a buffer with junk in between), 4 array('B')
    FromView(u8, Vec<u8>),
    Reset,
    Mutate(#[serde(with = "crate::case::hexbytes")] Vec<u8>, usize),
}

#[derive(Clone, Debug, PartialEq, Serialize, Deserialize)]
pub struct PySeq {
    pub mutator_class: bool,
    pub protocol: u8,
    pub seed: Option<u64>,
    pub ops: Vec<PyOp>,
}

impl PySeq {
    fn to_driver_json(&self) -> serde_json::Value {
        let ops: Vec<serde_json::Value> = self
            .ops
            .iter()
            .map(|o| match o {
                PyOp::SetRange(a, b) => json!(["set_range", a, b]),
                PyOp::Generate => json!(["generate"]),
                PyOp::FromBytes(b) => json!(["from_bytes", util::hex(b)]),
                PyOp::FromView(k, b) => json!(["from_view", k, util::hex(b)]),
                PyOp::Reset => json!(["reset"]),
                PyOp::Mutate(b, m) => json!(["mutate", util::hex(b), m]),
            })
            .collect();
        json!({"cls": if self.mutator_class { "PickleMutator" } else { "Generator" }, "protocol": self.protocol, "seed": self.seed, "ops": ops})
    }

    /// the library model: one generator whose set_opcode_range changes only the two bounds
    pub fn model(&self) -> Vec<Option<Vec<u8>>> {
        let mut cfg = GenCase::default_for(self.protocol, self.seed.unwrap_or(0));
        let mut out = vec![];
        for o in &self.ops {
            match o {
                PyOp::SetRange(a, b) => {
                    cfg.min_opcodes = *a;
                    cfg.max_opcodes = *b;
                    out.push(None);
                }
                PyOp::Reset => out.push(None),
                PyOp::Generate => {
                    if self.seed.is_some() {
                        out.push(cfg.run().ok());
                    } else {
                        out.push(None); // OS entropy: not comparable
                    }
                }
                PyOp::FromBytes(b) | PyOp::FromView(_, b) => {
                    let mut c = cfg.clone();
                    c.entropy = Entropy::Bytes(b.clone());
                    out.push(c.run().ok());
                }
                PyOp::Mutate(b, max) => {
                    let mut c = cfg.clone();
                    c.entropy = Entropy::Bytes(b.clone());
                    out.push(c.run().ok().map(|mut v| {
                        v.truncate(*max);
                        v
                    }));
                }
            }
        }
        out
    }
}

pub fn pyseq_strategy() -> BoxedStrategy<PySeq> {
    let bytes = prop_oneof![
        1 => Just(Vec::new()),
        3 => proptest::collection::vec(any::<u8>(), 1..64),
        2 => proptest::collection::vec(any::<u8>(), 64..600),
    ];
    let op = prop_oneof![
        3 => (0usize..80, 0usize..120).prop_map(|(a, b)| PyOp::SetRange(a, b)),
        3 => Just(PyOp::Generate),
        4 => bytes.clone().prop_map(PyOp::FromBytes),
        1 => (1u8..=4, bytes.clone()).prop_map(|(k, b)| PyOp::FromView(k, b)),
        2 => Just(PyOp::Reset),
        3 => (bytes, prop_oneof![Just(10_000usize), 0usize..400]).prop_map(|(b, m)| PyOp::Mutate(b, m)),
    ];
    (any::<bool>(), 0u8..6, proptest::option::weighted(0.8, any::<u64>()), proptest::collection::vec(op, 1..8))
        .prop_map(|(mutator_class, protocol, seed, ops)| {
            let ops = ops
                .into_iter()
                .filter(|o| if mutator_class { true } else { !matches!(o, PyOp::Mutate(..)) })
                .collect::<Vec<_>>();
            PySeq { mutator_class, protocol, seed, ops }
        })
        .boxed()
}

pub fn run_python(ctx: &Ctx, pkg_parent: &str, seqs: &[PySeq]) -> Result<Vec<Vec<String>>, String> {
    let path = format!("{}/work/pyseq-{}.json", ctx.verif_dir, std::process::id());
    let v: Vec<serde_json::Value> = seqs.iter().map(|s| s.to_driver_json()).collect();
    std::fs::write(&path, serde_json::to_string(&v).unwrap()).map_err(|e| e.to_string())?;
    let py = std::env::var("VERIF_PYTHON_VT").unwrap_or_else(|_| "python3-vt".to_string());
    let mut last_err = String::new();
    // one retry: a failure of the driver process itself says nothing about the bindings
    for _attempt in 0..2 {
        let out = Command::new(&py).arg(format!("{}/py/pydriver.py", ctx.verif_dir)).arg(pkg_parent).arg(&path).output().map_err(|e| format!("cannot run {}: {}", py, e))?;
        if out.status.success() {
            let _ = std::fs::remove_file(&path);
            return serde_json::from_slice(&out.stdout).map_err(|e| format!("pydriver output: {}", e));
        }
        let err = String::from_utf8_lossy(&out.stderr).to_string();
        // the end of a traceback names the exception
        let tail: String = err.chars().rev().take(700).collect::<Vec<_>>().into_iter().rev().collect();
        last_err = format!("pydriver failed ({}): ...{}", out.status, tail.replace('\n', " | "));
    }
    let _ = std::fs::remove_file(&path);
    Err(last_err)
}

pub fn judge_python(seq: &PySeq, got: &[String]) -> Result<bool, Fail> {
    let cls = if seq.mutator_class { "PickleMutator" } else { "Generator" };
    if got.len() != seq.ops.len() {
        return Err(Fail::new(format!("python:{}:results", cls), format!("{:?}: {} results for {} ops: {:?}", seq, got.len(), seq.ops.len(), got.first())));
    }
    let want = seq.model();
    let mut setter_then_gen = false;
    let mut seen_setter = false;
    for (i, (o, (g, w))) in seq.ops.iter().zip(got.iter().zip(want.iter())).enumerate() {
        let opname = match o {
            PyOp::SetRange(..) => "set_opcode_range",
            PyOp::Generate => "generate",
            PyOp::FromBytes(_) => "generate_from_bytes",
            PyOp::FromView(..) => "generate_from_bytes(bytes-like)",
            PyOp::Reset => "reset",
            PyOp::Mutate(..) => "mutate",
        };
        if matches!(o, PyOp::SetRange(..)) {
            seen_setter = true;
        }
        if matches!(o, PyOp::FromView(..)) && g == "ERR:TypeError" {
            // the binding may refuse carriers other than `bytes`; if it accepts one, the logical bytes count
            continue;
        }
        if g.starts_with("ERR:") {
            return Err(Fail::new(format!("python:{}:{}:raised", cls, opname), format!("op #{} {} raised {} in {:?}", i, opname, g, seq)));
        }
        if let Some(w) = w {
            let after = if seen_setter { ":after-set_opcode_range" } else { "" };
            if util::unhex(g).as_deref() != Some(w.as_slice()) {
                return Err(Fail::new(
                    format!("python:{}:{}:bytes{}", cls, opname, after),
                    format!("op #{} {} returned {} bytes; the library model returns {} bytes (sequence {:?})", i, opname, g.len() / 2, w.len(), seq.ops.iter().map(|o| format!("{:?}", o).chars().take(30).collect::<String>()).collect::<Vec<_>>()),
                ));
            }
            if seen_setter {
                setter_then_gen = true;
            }
        }
    }
    Ok(setter_then_gen)
}

// ------------------------------------------------------------------------------------------
// the check
// ------------------------------------------------------------------------------------------

pub fn run_c13(ctx: &Ctx) -> Outcome {
    let mut out = Outcome::new(
        "Generated option tuples (protocol?, seed?, min/max, --mutators as names / 'all' / mixed, single or repeated flags, rate, unsafe, \
         allow-ext, allow-buffer, single-file or batch with 0..11 samples, RAYON_NUM_THREADS in {1,2,5,16}, optional injected write fault) \
         run through the pickle-fuzzer binary built from /repo and through scripts/action-run.sh (INPUT_* variables, comma/space separated \
         mutators, every is_true spelling); generated Python call sequences constructor -> {set_opcode_range, generate, generate_from_bytes, \
         reset, mutate}* run through the extension module built from /repo. Oracle: bytes on disk / returned == bytes of the library called \
         in-process with the configuration given by an independently written option mapping (protocol = --protocol else seed mod 6; 'all' = six \
         non-memo mutators + memoindex iff unsafe; batch writes exactly 0.pkl..N-1.pkl and exits 0 only if all were written; Python \
         set_opcode_range changes only the two bounds). Non-trivial = >= 2 non-default options, or a Python sequence with a setter followed by \
         a compared generation.",
    );
    let cli = match build_cli(ctx) {
        Ok(c) => c,
        Err(e) => {
            out.inconclusive = Some(e);
            return out;
        }
    };
    // hook neutrality: the CLI binary is built with the `verif` feature OFF, the reference outputs
    // come from the library with the feature ON
    let n_cli = ctx.n(600, 9000) as usize;
    let n_wrap = ctx.n(150, 2200) as usize;
    let mut items: Vec<(usize, CliCase)> = materialise(&cli_strategy(false), ctx.seed, 131, n_cli).into_iter().enumerate().collect();
    let wr: Vec<CliCase> = materialise(&cli_strategy(true), ctx.seed, 132, n_wrap);
    let base = items.len();
    items.extend(wr.into_iter().enumerate().map(|(i, c)| (base + i, c)));
    let (st, found) = run_enum(items, |(i, c), st| check_cli(ctx, &cli, c, *i, st));
    out.stats.merge(st);
    if let Some(((_, c), f)) = found {
        out.violation = Some(Violation { fail: f, case: json!({"cli_case": c}) });
        return out;
    }
    {
        let mut st = Stats::default();
        let r = check_cli_many_faults(ctx, &cli, &mut st);
        out.stats.merge(st);
        match r {
            Ok(()) => {}
            Err(f) if f.sig.starts_with("harness:") => {
                out.inconclusive = Some(f.msg);
                return out;
            }
            Err(f) => {
                out.violation = Some(Violation { fail: f, case: json!({"cli_many_faults": true}) });
                return out;
            }
        }
    }
    // Python
    match build_python(ctx) {
        Err(e) => {
            out.inconclusive = Some(e);
        }
        Ok(parent) => {
            {
                let mut st = Stats::default();
                let r = check_python_seed_probe(ctx, &parent, &mut st);
                out.stats.merge(st);
                match r {
                    Ok(()) => {}
                    Err(f) if f.sig.starts_with("harness:") => {
                        out.inconclusive = Some(f.msg);
                        return out;
                    }
                    Err(f) => {
                        out.violation = Some(Violation { fail: f, case: json!({"py_seed_probe": true}) });
                        return out;
                    }
                }
            }
            let seqs: Vec<PySeq> = materialise(&pyseq_strategy(), ctx.seed, 133, ctx.n(2000, 30000) as usize);
            match run_python(ctx, &parent, &seqs) {
                Err(e) => out.inconclusive = Some(e),
                Ok(results) => {
                    if results.len() != seqs.len() {
                        out.inconclusive = Some("pydriver returned a different number of sequences".into());
                        return out;
                    }
                    for (s, g) in seqs.iter().zip(results.iter()) {
                        out.stats.evaluations += 1;
                        out.stats.label(if s.mutator_class { "python PickleMutator sequence" } else { "python Generator sequence" });
                        match judge_python(s, g) {
                            Ok(nt) => {
                                if nt {
                                    out.stats.label("python: setter followed by compared generation");
                                    out.stats.nontrivial(util::digest_str(&format!("{:?}", s)));
                                    if out.stats.samples.len() < crate::runner::MAX_SAMPLES + 2 {
                                        out.stats.samples.push(json!({"python_sequence": s.to_driver_json()}));
                                    }
                                }
                            }
                            Err(f) => {
                                let mut st = Stats::default();
                                if ctx.fail(&mut st, f.clone()).is_err() {
                                    // shrink by hand: shortest failing prefix
                                    out.violation = Some(Violation { fail: f, case: json!({"py_seq": s}) });
                                    return out;
                                }
                                out.stats.merge(st);
                            }
                        }
                    }
                }
            }
        }
    }
    out.assumptions = vec![
        "--unsafe-mutations without --mutators: either library output (flag forwarded or not) is accepted (documentation is silent)".into(),
        "byte comparison only when a seed is given; unseeded outputs are decoded and their protocol checked".into(),
        "the CLI is invoked as `[OPTIONS] -- FILE` (clap's variadic --mutators otherwise consumes FILE)".into(),
        "python3-vt (with atheris, needed by fuzzer.py) and libpython3.11 are present on this image".into(),
    ];
    out
}

pub fn replay_cli(ctx: &Ctx, c: &CliCase) -> Result<(), Fail> {
    let cli = build_cli(ctx).map_err(|e| Fail::new("harness:build", e))?;
    let mut st = Stats::default();
    check_cli(ctx, &cli, c, 999_999, &mut st)
}

pub fn replay_py(ctx: &Ctx, s: &PySeq) -> Result<(), Fail> {
    let parent = build_python(ctx).map_err(|e| Fail::new("harness:build", e))?;
    let r = run_python(ctx, &parent, std::slice::from_ref(s)).map_err(|e| Fail::new("harness:python", e))?;
    let mut st = Stats::default();
    match judge_python(s, &r[0]) {
        Ok(_) => Ok(()),
        Err(f) => ctx.fail(&mut st, f),
    }
}


/// C10 through the command line: whatever else the invocation does, files it writes must not contain
/// EXT* unless --allow-ext was given, nor buffer opcodes unless --allow-buffer was given
pub fn check_cli_flags(ctx: &Ctx, cli: &str, c: &CliCase, idx: usize, st: &mut Stats) -> Result<(), Fail> {
    use crate::refpvm::optable as t;
    let dir = format!("{}/work/c10-{}-{}", ctx.verif_dir, std::process::id(), idx);
    let ro = invoke(ctx, cli, c, &dir);
    let mut files: Vec<(String, Vec<u8>)> = Vec::new();
    if let Ok(b) = std::fs::read(format!("{}/{}", dir, OUT_FILE)) {
        files.push((OUT_FILE.into(), b));
    }
    if let Ok(rd) = std::fs::read_dir(format!("{}/{}", dir, OUT_DIR)) {
        for e in rd.filter_map(|e| e.ok()) {
            if let Ok(b) = std::fs::read(e.path()) {
                files.push((e.file_name().to_string_lossy().to_string(), b));
            }
        }
    }
    let _ = std::fs::remove_dir_all(&dir);
    if let Err(e) = ro {
        return Err(Fail::new("harness:invoke", e));
    }
    for (name, bytes) in &files {
        let Ok(ops) = lexer::lex_py(bytes) else {
            st.label("cli output undecodable (skipped; C04/C13 decide)");
            continue;
        };
        for op in &ops {
            let code = op.code();
            let is_ext = [t::EXT1, t::EXT2, t::EXT4].contains(&code);
            let is_buf = [t::NEXT_BUFFER, t::READONLY_BUFFER].contains(&code);
            if (is_ext && !c.allow_ext) || (is_buf && !c.allow_buffer) {
                return ctx.fail(
                    st,
                    Fail::new(
                        format!("cli:{}-without-flag:{}", if is_ext { "ext" } else { "buffer" }, op.info.name),
                        format!("{}: {} contains {} although {} was not given", c.brief(), name, op.info.name, if is_ext { "--allow-ext" } else { "--allow-buffer" }),
                    )
                    .with_output(bytes),
                );
            }
        }
        st.label(&format!("cli file checked, flags ext={} buffer={}", c.allow_ext as u8, c.allow_buffer as u8));
    }
    Ok(())
}

// ------------------------------------------------------------------------------------------
// C14 through the CLI: a batch process's peak memory must not grow with the number of pickles
// ------------------------------------------------------------------------------------------

#[derive(Clone, Debug, Serialize, Deserialize)]
pub struct RssCase {
    pub protocol: u8,
    pub seed: u64,
    pub min: usize,
    pub max: usize,
    pub small: usize,
    pub large: usize,
    pub rayon_threads: u8,
}

/// (peak resident set in KiB as reported by /usr/bin/time, total bytes written)
fn batch_peak(ctx: &Ctx, cli: &str, c: &RssCase, samples: usize, tag: &str) -> Result<(u64, u64), String> {
    let dir = format!("{}/work/c14-rss-{}-{}", ctx.verif_dir, std::process::id(), tag);
    let _ = std::fs::remove_dir_all(&dir);
    std::fs::create_dir_all(&dir).map_err(|e| e.to_string())?;
    let rss_file = format!("{}/rss", dir);
    let out = Command::new("/usr/bin/time")
        .args(["-f", "%M", "-o", &rss_file, cli, "--dir", &format!("{}/{}", dir, OUT_DIR), "--samples", &samples.to_string()])
        .args(["--protocol", &c.protocol.to_string(), "--seed", &c.seed.to_string(), "--min-opcodes", &c.min.to_string(), "--max-opcodes", &c.max.to_string()])
        .env("RAYON_NUM_THREADS", c.rayon_threads.to_string())
        .stdout(Stdio::null())
        .stderr(Stdio::null())
        .status()
        .map_err(|e| format!("/usr/bin/time: {}", e));
    let res = (|| {
        let st = out?;
        if !st.success() {
            return Err(format!("the batch run failed ({})", st));
        }
        let rss: u64 = std::fs::read_to_string(&rss_file).map_err(|e| e.to_string())?.lines().last().unwrap_or("").trim().parse().map_err(|_| "unreadable %M".to_string())?;
        let mut total = 0u64;
        let mut files = 0usize;
        for e in std::fs::read_dir(format!("{}/{}", dir, OUT_DIR)).map_err(|e| e.to_string())?.filter_map(|e| e.ok()) {
            total += e.metadata().map(|m| m.len()).unwrap_or(0);
            files += 1;
        }
        if files != samples {
            return Err(format!("{} files for {} samples", files, samples));
        }
        Ok((rss, total))
    })();
    let _ = std::fs::remove_dir_all(&dir);
    res
}

pub fn check_cli_rss(ctx: &Ctx, cli: &str, c: &RssCase, st: &mut Stats) -> Result<(), Fail> {
    let (rss_small, _) = batch_peak(ctx, cli, c, c.small, "s").map_err(|e| Fail::new("harness:rss", e))?;
    let (rss_large, total) = batch_peak(ctx, cli, c, c.large, "l").map_err(|e| Fail::new("harness:rss", e))?;
    let growth_kib = rss_large.saturating_sub(rss_small);
    st.evaluations += 2;
    st.add("CLI batch runs measured (peak RSS)", 2);
    st.sample(|| json!({"cli_batch": format!("P{} seed {} ops {}..{} workers {}", c.protocol, c.seed, c.min, c.max, c.rayon_threads), "samples": [c.small, c.large], "peak_rss_kib": [rss_small, rss_large], "bytes_written_large": total}));
    if total < 32 << 20 {
        return Err(Fail::new("harness:rss", format!("the large batch wrote only {} bytes: too little to tell retention from noise", total)));
    }
    st.nontrivial(util::digest_str(&format!("rss{}{}{}", c.protocol, c.seed, c.large)));
    // a process that keeps what it generated needs `total` more bytes; one that releases each pickle needs none.
    // Half of `total` (>= 16 MiB) is far above allocator and thread-count noise (a few MiB).
    if growth_kib * 1024 > total / 2 {
        return ctx.fail(
            st,
            Fail::new(
                "cli-batch-memory-grows-with-samples",
                format!(
                    "CLI batch mode, protocol {} seed {} opcodes {}..{} with {} workers: peak resident memory is {} KiB for {} samples but {} KiB for {} samples ({} KiB more; the larger batch wrote {} KiB of pickles): memory is not released per pickle",
                    c.protocol, c.seed, c.min, c.max, c.rayon_threads, rss_small, c.small, rss_large, c.large, growth_kib, total / 1024
                ),
            ),
        );
    }
    Ok(())
}

pub fn run_c14_cli(ctx: &Ctx, out: &mut Outcome) {
    if out.failed() || out.inconclusive.is_some() {
        return;
    }
    if !std::path::Path::new("/usr/bin/time").exists() {
        out.assumptions.push("CLI batch memory was not measured: /usr/bin/time is missing".into());
        return;
    }
    let cli = match build_cli(ctx) {
        Ok(c) => c,
        Err(e) => {
            out.inconclusive = Some(e);
            return;
        }
    };
    let protos: Vec<u8> = if ctx.thorough() { vec![0, 2, 3, 5] } else { vec![(ctx.seed % 6) as u8, ((ctx.seed + 3) % 6) as u8] };
    for (i, p) in protos.into_iter().enumerate() {
        let c = RssCase { protocol: p, seed: ctx.seed.wrapping_mul(31).wrapping_add(i as u64), min: 1500, max: 2500, small: 300, large: if ctx.thorough() { 24_000 } else { 6_000 }, rayon_threads: if i % 2 == 0 { 16 } else { 4 } };
        let mut st = Stats::default();
        let r = check_cli_rss(ctx, &cli, &c, &mut st);
        // keep the measurements visible among the (capped) evidence samples
        for smp in st.samples.drain(..) {
            out.stats.samples.insert(0, smp);
        }
        out.stats.samples.truncate(crate::runner::MAX_SAMPLES);
        out.stats.merge(st);
        match r {
            Ok(()) => {}
            Err(f) if f.sig.starts_with("harness:") => {
                out.inconclusive = Some(f.msg);
                return;
            }
            Err(f) => {
                out.violation = Some(Violation { fail: f, case: json!({"cli_rss": c}) });
                return;
            }
        }
    }
}

pub fn replay_cli_rss(ctx: &Ctx, c: &RssCase) -> Result<(), Fail> {
    let cli = build_cli(ctx).map_err(|e| Fail::new("harness:build", e))?;
    let mut st = Stats::default();
    check_cli_rss(ctx, &cli, c, &mut st)
}

// ------------------------------------------------------------------------------------------
// C14 through the Python front end: a long-running fuzzing process must not retain what it generated
// ------------------------------------------------------------------------------------------

#[derive(Clone, Debug, Serialize, Deserialize)]
pub struct PyMemCase {
    pub protocol: u8,
    pub seed: u64,
    pub calls: usize,
}

pub fn check_py_mem(ctx: &Ctx, pkg_parent: &str, c: &PyMemCase, st: &mut Stats) -> Result<(), Fail> {
    let py = std::env::var("VERIF_PYTHON_VT").unwrap_or_else(|_| "python3-vt".to_string());
    let mut last = String::new();
    let mut res: Option<serde_json::Value> = None;
    for _attempt in 0..2 {
        let out = Command::new(&py)
            .arg(format!("{}/py/pymem.py", ctx.verif_dir))
            .args([pkg_parent, &c.protocol.to_string(), &(c.seed % 1_000_000_007).to_string(), &c.calls.to_string()])
            .output()
            .map_err(|e| Fail::new("harness:pymem", format!("cannot run {}: {}", py, e)))?;
        if out.status.success() {
            res = serde_json::from_slice(&out.stdout).ok();
            if res.is_some() {
                break;
            }
        }
        let err = String::from_utf8_lossy(&out.stderr).to_string();
        last = err.chars().rev().take(500).collect::<Vec<_>>().into_iter().rev().collect::<String>().replace('\n', " | ");
    }
    let Some(r) = res else {
        return Err(Fail::new("harness:pymem", format!("pymem.py failed: ...{}", last)));
    };
    let total = r["bytes_returned"].as_i64().unwrap_or(0);
    let py_growth = r["py_growth"].as_i64().unwrap_or(0);
    let rss_growth = r["rss_growth"].as_i64().unwrap_or(0);
    let alive = r["dropped_alive"].as_i64().unwrap_or(0);
    st.evaluations += c.calls as u64;
    st.add("Python front end: mutate()/generate_from_bytes() calls in one measured process", c.calls as u64);
    st.sample(|| json!({"python_process": format!("P{} seed {}", c.protocol, c.seed), "measured": r}));
    if total < 4 << 20 {
        return Err(Fail::new("harness:pymem", format!("only {} bytes were returned: too little to tell retention from noise", total)));
    }
    st.nontrivial(util::digest_str(&format!("pymem{}{}", c.protocol, c.seed)));
    let what = format!("Python front end, protocol {} seed {}: {} calls returned {} bytes", c.protocol, c.seed, c.calls, total);
    // measured on the tree: a few hundred bytes. 256 KiB + 1/64 of the bytes returned is far above that and far
    // below what retaining even a small record per call adds up to
    if py_growth > (256 << 10) + total / 64 {
        return ctx.fail(st, Fail::new("python-retains-results", format!("{}; Python-level allocations grew by {} bytes (tracemalloc): the results (or their inputs) are retained", what, py_growth)));
    }
    if rss_growth > total / 2 + (16 << 20) {
        return ctx.fail(st, Fail::new("python-process-memory-grows", format!("{}; the resident set grew by {} bytes", what, rss_growth)));
    }
    if alive > 0 {
        return ctx.fail(
            st,
            Fail::new("python-dropped-mutator-alive", format!("{}; {} of {} PickleMutator objects that were used once and dropped are still alive after gc.collect()", what, alive, r["dropped_total"])),
        );
    }
    Ok(())
}

pub fn run_c14_python(ctx: &Ctx, out: &mut Outcome) {
    if out.failed() || out.inconclusive.is_some() {
        return;
    }
    let pkg = match build_python(ctx) {
        Ok(p) => p,
        Err(e) => {
            out.inconclusive = Some(e);
            return;
        }
    };
    let c = PyMemCase { protocol: ((ctx.seed + 2) % 6) as u8, seed: ctx.seed.wrapping_mul(131).wrapping_add(7), calls: if ctx.thorough() { 60_000 } else { 8_000 } };
    let mut st = Stats::default();
    let r = check_py_mem(ctx, &pkg, &c, &mut st);
    for smp in st.samples.drain(..) {
        out.stats.samples.insert(0, smp);
    }
    out.stats.samples.truncate(crate::runner::MAX_SAMPLES);
    out.stats.merge(st);
    match r {
        Ok(()) => {}
        Err(f) if f.sig.starts_with("harness:") => out.inconclusive = Some(f.msg),
        Err(f) => out.violation = Some(Violation { fail: f, case: json!({"py_mem": c}) }),
    }
}

pub fn replay_py_mem(ctx: &Ctx, c: &PyMemCase) -> Result<(), Fail> {
    let pkg = build_python(ctx).map_err(|e| Fail::new("harness:build", e))?;
    let mut st = Stats::default();
    check_py_mem(ctx, &pkg, c, &mut st)
}

/// Seeds the Python constructors may be handed: out of the u64 range, negative, not an int. The binding may
/// refuse them; if it accepts one, two generators built with it must agree (a seed that is silently dropped
/// leaves an OS-seeded generator).
pub fn check_python_seed_probe(ctx: &Ctx, pkg_parent: &str, st: &mut Stats) -> Result<(), Fail> {
    let exprs = ["2**64", "2**64+5", "2**200", "-1", "-2**63-1", "-2**63", "42.0", "'42'", "True", "2**63", "2**64-1", "0", "b'7'", "[7]"];
    let mut seqs = vec![];
    for (i, e) in exprs.iter().enumerate() {
        for mutator in [false, true] {
            seqs.push(json!({"cls": "SeedProbe", "protocol": (i % 6) as u8, "seed_expr": e, "mutator": mutator}));
        }
    }
    let path = format!("{}/work/pyseed-{}.json", ctx.verif_dir, std::process::id());
    std::fs::write(&path, serde_json::to_string(&seqs).unwrap()).map_err(|e| Fail::new("harness:pyseed", e.to_string()))?;
    let py = std::env::var("VERIF_PYTHON_VT").unwrap_or_else(|_| "python3-vt".to_string());
    let out = Command::new(&py).arg(format!("{}/py/pydriver.py", ctx.verif_dir)).arg(pkg_parent).arg(&path).output();
    let _ = std::fs::remove_file(&path);
    let out = out.map_err(|e| Fail::new("harness:pyseed", e.to_string()))?;
    if !out.status.success() {
        return Err(Fail::new("harness:pyseed", format!("pydriver failed: {}", String::from_utf8_lossy(&out.stderr).chars().rev().take(300).collect::<String>().chars().rev().collect::<String>())));
    }
    let res: Vec<Vec<String>> = serde_json::from_slice(&out.stdout).map_err(|e| Fail::new("harness:pyseed", e.to_string()))?;
    for (q, r) in seqs.iter().zip(res.iter()) {
        st.evaluations += 1;
        let (a, b) = (r.first().cloned().unwrap_or_default(), r.get(1).cloned().unwrap_or_default());
        if a.starts_with("ERR:") && b.starts_with("ERR:") {
            st.label("python: unusual seed refused");
            continue;
        }
        if a != b {
            return ctx.fail(
                st,
                Fail::new(
                    "python:seed-accepted-but-not-used",
                    format!("Python {}(protocol={}, seed={}) was accepted, but two generators built that way return different pickles ({} vs {} bytes): the seed is not in effect", if q["mutator"] == true { "PickleMutator" } else { "Generator" }, q["protocol"], q["seed_expr"], a.len() / 2, b.len() / 2),
                ),
            );
        }
        st.label("python: unusual seed accepted and deterministic");
        st.nontrivial(util::digest_str(&format!("{}{}", q["seed_expr"], q["mutator"])));
    }
    Ok(())
}

/// batch runs in which 255, 256 and 512 samples cannot be written (directories in the way): the exit status is
/// non-zero however many failed, and every writable sample equals the library's bytes
pub fn check_cli_many_faults(ctx: &Ctx, cli: &str, st: &mut Stats) -> Result<(), Fail> {
    for (k, (n, blocked)) in [(300usize, 255usize), (300, 256), (520, 512)].into_iter().enumerate() {
        let dir = format!("{}/work/c13-mf-{}-{}", ctx.verif_dir, std::process::id(), k);
        let _ = std::fs::remove_dir_all(&dir);
        let outdir = format!("{}/{}", dir, OUT_DIR);
        for i in 0..blocked {
            std::fs::create_dir_all(format!("{}/{}.pkl", outdir, i)).map_err(|e| Fail::new("harness:invoke", e.to_string()))?;
        }
        let seed = ctx.seed.wrapping_mul(977).wrapping_add(k as u64);
        let out = Command::new(cli)
            .args(["--dir", &outdir, "--samples", &n.to_string(), "--seed", &seed.to_string(), "--protocol", &((k % 6).to_string()), "--min-opcodes", "3", "--max-opcodes", "12"])
            .env("RAYON_NUM_THREADS", "8")
            .output()
            .map_err(|e| Fail::new("harness:invoke", e.to_string()))?;
        let mut c = GenCase::default_for((k % 6) as u8, seed);
        c.min_opcodes = 3;
        c.max_opcodes = 12;
        let want = c.run().map_err(|e| Fail::new("harness:reference", e.to_string()))?;
        let mut bad_file = None;
        for i in blocked..n {
            if std::fs::read(format!("{}/{}.pkl", outdir, i)).ok().as_deref() != Some(want.as_slice()) {
                bad_file = Some(i);
                break;
            }
        }
        let _ = std::fs::remove_dir_all(&dir);
        st.evaluations += 1;
        st.label("batch with hundreds of unwritable samples");
        if out.status.code() == Some(0) {
            return ctx.fail(st, Fail::new("cli:batch:many-faults-ignored", format!("batch of {} samples of which {} could not be written (directories in the way) exited 0", n, blocked)));
        }
        if let Some(i) = bad_file {
            return ctx.fail(st, Fail::new("cli:batch:bytes", format!("batch of {} samples with {} unwritable ones: {}.pkl is missing or differs from the library's bytes", n, blocked, i)));
        }
        st.nontrivial(util::digest_str(&format!("mf{}{}", n, blocked)));
    }
    Ok(())
}
