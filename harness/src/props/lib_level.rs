//! Library-level behavioural properties: C08 (reuse), C14 (leaks), C12 (reachability),
//! C07 (determinism; the process / CLI parts live in props::procs).

use crate::alloc;
use crate::analysis::{analyze_output, GETS};
use crate::case::{self, call_gen_guarded as call_gen, Entropy, GenCase, Profile, RateMode, SizeMode};
use crate::refpvm::optable as t;
use crate::runner::{run_enum, run_prop, Ctx, Fail, Outcome, Stats, Violation, THREADS};
use crate::util;
use proptest::prelude::*;
use serde::{Deserialize, Serialize};
use serde_json::json;
use std::collections::BTreeMap;

// ------------------------------------------------------------------------------------------
// C08: reuse
// ------------------------------------------------------------------------------------------

#[derive(Clone, Debug, PartialEq, Serialize, Deserialize)]
pub enum Op {
    Generate,
    #[serde(with = "crate::case::hexbytes")]
    FromBytes(Vec<u8>),
    Reset,
    /// the caller moves the public `output` buffer out of the generator (std::mem::take)
    TakeOutput,
    /// the caller re-configures the opcode range through the public fields `min_opcodes` / `max_opcodes`
    SetRange(usize, usize),
    /// only one of the two public fields is written
    SetMin(usize),
    SetMax(usize),
    /// the caller writes another protocol into the public field `state.version` between two calls
    SetVersion(u8),
}

#[derive(Clone, Debug, Serialize, Deserialize)]
pub struct SeqCase {
    /// configuration (its `entropy` must be `Seed`: it is the generator's PRNG seed)
    pub base: GenCase,
    pub ops: Vec<Op>,
    /// the generator is built WITHOUT a seed (as `Generator::new(v)` and the Python bindings do by default):
    /// `generate()` results are then legitimately random and are not compared, fuzzer-bytes calls still are
    #[serde(default)]
    pub unseeded: bool,
}

pub fn seq_strategy(p: &Profile, maxlen: usize) -> BoxedStrategy<SeqCase> {
    let op = prop_oneof![
        3 => Just(Op::Generate),
        4 => case::bytes_entropy().prop_map(Op::FromBytes),
        2 => Just(Op::Reset),
        1 => Just(Op::TakeOutput),
        1 => prop_oneof![(0usize..40, 0usize..40), Just((60usize, 300usize)), (300usize..900).prop_map(|a| (a, a + 50))].prop_map(|(a, b)| Op::SetRange(a, b)),
        1 => prop_oneof![(0usize..60).prop_map(Op::SetMin), (0usize..60).prop_map(Op::SetMax), (200usize..500).prop_map(Op::SetMin)],
        1 => (0u8..6).prop_map(Op::SetVersion),
    ];
    let last = prop_oneof![1 => Just(Op::Generate), 1 => case::bytes_entropy().prop_map(Op::FromBytes)];
    (case::gencase(p), any::<u64>(), proptest::collection::vec(op, 0..maxlen), last, proptest::bool::weighted(0.25))
        .prop_map(|(mut base, seed, mut ops, last, unseeded)| {
            base.entropy = Entropy::Seed(seed);
            ops.push(last);
            if unseeded && !ops.iter().any(|o| matches!(o, Op::FromBytes(_))) {
                ops.push(Op::FromBytes(Vec::new()));
            }
            SeqCase { base, ops, unseeded }
        })
        .boxed()
}

fn entropy_of(base: &GenCase, op: &Op) -> Option<Entropy> {
    match op {
        Op::Generate => Some(base.entropy.clone()),
        Op::FromBytes(b) => Some(Entropy::Bytes(b.clone())),
        Op::Reset | Op::TakeOutput | Op::SetRange(..) | Op::SetMin(_) | Op::SetMax(_) | Op::SetVersion(_) => None,
    }
}

/// the generator of a sequence case (no seed if `unseeded`)
fn seq_build(sc: &SeqCase) -> pickle_fuzzer::Generator {
    if sc.unseeded {
        let mut b = sc.base.clone();
        b.entropy = Entropy::Bytes(Vec::new()); // `build` only sets a seed for Entropy::Seed
        b.build(None)
    } else {
        sc.base.build(None)
    }
}

pub fn check_c08(ctx: &Ctx, sc: &SeqCase, st: &mut Stats) -> Result<(), Fail> {
    let mut g = seq_build(sc);
    if sc.unseeded {
        st.label("unseeded generator (generate() results not compared)");
    }
    let mut calls_since_reset = 0usize;
    let mut back_to_back = false;
    let mut calls = 0usize;
    let mut last_digest = 0u64;
    let mut last_unseeded: Option<Vec<u8>> = None;
    // the opcode range currently configured through the public fields (None: as built)
    let mut range: Option<(usize, usize)> = None;
    // the protocol the caller wrote last into `state.version` (None: as built)
    let mut version: Option<u8> = None;
    for (i, op) in sc.ops.iter().enumerate() {
        let Some(e) = entropy_of(&sc.base, op) else {
            match op {
                Op::TakeOutput => {
                    let _ = std::mem::take(&mut g.output);
                }
                Op::SetRange(a, b) => {
                    g.min_opcodes = *a;
                    g.max_opcodes = *b;
                    range = Some((*a, *b));
                }
                Op::SetMin(a) => {
                    // the caller's configuration: what it wrote last into each field (not what the generator holds)
                    let cur = range.unwrap_or((sc.base.min_opcodes, sc.base.max_opcodes));
                    g.min_opcodes = *a;
                    range = Some((*a, cur.1));
                }
                Op::SetMax(b) => {
                    let cur = range.unwrap_or((sc.base.min_opcodes, sc.base.max_opcodes));
                    g.max_opcodes = *b;
                    range = Some((cur.0, *b));
                }
                Op::SetVersion(v) => {
                    g.state.version = pickle_fuzzer::Version::try_from(*v as usize).expect("protocol 0..=5");
                    version = Some(*v);
                    st.label("protocol re-written through state.version between calls");
                }
                _ => {
                    g.reset();
                    calls_since_reset = 0;
                }
            }
            continue;
        };
        let got = call_gen(&mut g, &e);
        if sc.unseeded && matches!(op, Op::Generate) {
            // OS-seeded: legitimately different every time; it still is part of the history. "Different every
            // time" is itself what a fresh generator does: every call draws a new seed from the OS, so two such
            // outputs of at least 24 body opcodes each coincide with probability < 1e-20
            calls_since_reset += 1;
            if let Ok(o) = &got {
                if range.map_or(sc.base.min_opcodes, |r| r.0) >= 24 {
                    if let Some(prev) = &last_unseeded {
                        if prev == o {
                            return ctx.fail(
                                st,
                                Fail::new(
                                    "reuse:generate:unseeded-repeats",
                                    format!("call #{}: generate() on an unseeded generator returned the {} bytes of its previous unseeded generate() call again (a fresh unseeded generator draws a new seed from the OS for every call)", i, o.len()),
                                )
                                .with_output(o),
                            );
                        }
                        st.label("two unseeded generate() calls on one generator differ");
                    }
                    last_unseeded = Some(o.clone());
                }
            }
            continue;
        }
        // the fresh generator is BUILT for the protocol the caller holds now (`Generator::new(v)`), not re-written
        let mut fresh = match version {
            Some(v) if v != sc.base.protocol => {
                let mut other = sc.clone();
                other.base.protocol = v;
                seq_build(&other)
            }
            _ => seq_build(sc),
        };
        if let Some((a, b)) = range {
            fresh.min_opcodes = a;
            fresh.max_opcodes = b;
        }
        let want = call_gen(&mut fresh, &e);
        calls += 1;
        calls_since_reset += 1;
        if calls_since_reset >= 2 {
            back_to_back = true;
        }
        match (&got, &want) {
            (Ok(a), Ok(b)) => {
                if a != b {
                    let class = if a.len() > b.len() && a.ends_with(b) {
                        "appended-to-previous-output"
                    } else if a.len() != b.len() {
                        "different-length"
                    } else {
                        "different-bytes"
                    };
                    let kind = if matches!(op, Op::Generate) { "generate" } else { "generate_from_arbitrary" };
                    return ctx.fail(
                        st,
                        Fail::new(
                            format!("reuse:{}:{}", kind, class),
                            format!(
                                "call #{} ({}) on the reused generator returned {} bytes, a fresh generator returns {} bytes ({} generation calls since the last reset)",
                                i, kind, a.len(), b.len(), calls_since_reset
                            ),
                        )
                        .with_output(a),
                    );
                }
                last_digest = util::digest(a);
            }
            (Err(_), Err(_)) => {
                st.label("both failed (skipped; C09 decides)");
            }
            (a, b) => {
                return ctx.fail(
                    st,
                    Fail::new("reuse:outcome-differs", format!("call #{}: reused generator -> {:?}, fresh generator -> {:?}", i, a.as_ref().map(|v| v.len()), b.as_ref().map(|v| v.len()))),
                );
            }
        }
    }
    st.add("generation calls compared", calls as u64);
    if back_to_back {
        st.label("has >= 2 generation calls without reset in between");
        st.nontrivial(last_digest ^ util::digest_str(&format!("{:?}", sc.ops.len())));
        st.sample(|| {
            json!({"config": sc.base.brief(), "ops": sc.ops.iter().map(|o| match o { Op::Generate => "generate".to_string(), Op::Reset => "reset".to_string(), Op::TakeOutput => "take(output)".to_string(), Op::SetRange(a, b) => format!("set_range({},{})", a, b), Op::SetMin(a) => format!("min_opcodes={}", a), Op::SetMax(b) => format!("max_opcodes={}", b), Op::SetVersion(v) => format!("state.version={}", v), Op::FromBytes(b) => format!("from_bytes[{}]", b.len()) }).collect::<Vec<_>>()})
        });
    }
    if sc.ops.iter().any(|o| matches!(o, Op::Reset)) {
        st.label("sequence contains reset");
    }
    Ok(())
}

fn big_strategy(small: &Profile) -> BoxedStrategy<SeqCase> {
    (case::gencase(small), any::<u64>(), prop_oneof![5 => 9_000usize..16_000, 1 => 30_000usize..36_000], proptest::collection::vec(case::bytes_entropy(), 1..4), any::<bool>(), any::<bool>(), 0usize..120)
        .prop_map(|(mut base, seed, n, later, first_seeded, with_reset, small_n)| {
            base.entropy = Entropy::Seed(seed);
            base.prior_calls = 0;
            let mut ops = vec![Op::SetRange(n, n), if first_seeded { Op::Generate } else { Op::FromBytes(vec![7; 64]) }, Op::SetRange(small_n, small_n + 30)];
            if with_reset {
                ops.push(Op::Reset);
            }
            for b in later {
                ops.push(Op::FromBytes(b));
                ops.push(Op::Generate);
            }
            SeqCase { base, ops, unseeded: false }
        })
        .boxed()
}

fn long_strategy(small: &Profile) -> BoxedStrategy<SeqCase> {
    (case::gencase(small), any::<u64>(), proptest::collection::vec(prop_oneof![6 => case::bytes_entropy().prop_map(Op::FromBytes), 3 => Just(Op::Generate), 1 => Just(Op::Reset)], 260..520), 0usize..12)
        .prop_map(|(mut base, seed, ops, n)| {
            base.entropy = Entropy::Seed(seed);
            base.prior_calls = 0;
            base.min_opcodes = n;
            base.max_opcodes = n + 8;
            SeqCase { base, ops, unseeded: false }
        })
        .boxed()
}

pub fn run_c08(ctx: &Ctx) -> Outcome {
    let mut out = Outcome::new(
        "Operation sequences of length 1..8 over {generate, generate_from_arbitrary(bytes), reset} on one generator (the whole sequence is one \
         proptest value and shrinks as one), for all protocols and configurations incl. mutators / unsafe / opt-in flags; the generator has a \
         PRNG seed. Model-based oracle: the result of every generation call equals the result of the same call on a fresh generator with equal \
         configuration. Also re-configuration of the opcode range through the public fields between calls; (b) histories that start with one \
         pickle of 9 000..16 000 (one in six: 30 000..36 000) opcodes; (c) long-lived generators: 260..520 calls, and once per protocol 70 000 calls (300 000 thorough) of tiny \
         pickles, every call compared. Non-trivial = >= 2 generation calls without a reset in between.",
    );
    let mut p = Profile::full();
    p.rate = RateMode::InRange;
    p.size = SizeMode::Mixed;
    let r = run_prop(ctx, 1, ctx.n(40_000, 1_000_000), || seq_strategy(&p, 8), |c: &SeqCase, st: &mut Stats| check_c08(ctx, c, st));
    out.absorb(r);
    if out.failed() {
        return out;
    }
    // (b) after a very large pickle: one call of 9 000..16 000 opcodes (its output buffer grows past every
    // "small buffer" threshold), then the range is set back and ordinary calls follow
    let mut small = Profile::full();
    small.rate = RateMode::InRange;
    small.size = SizeMode::Tiny;
    let r = run_prop(ctx, 2, ctx.n(96, 1_500), || big_strategy(&small), |c: &SeqCase, st: &mut Stats| {
        st.label("(b) history with one very large pickle first");
        check_c08(ctx, c, st)
    });
    out.absorb(r);
    if out.failed() {
        return out;
    }
    // (c) long-lived generators: hundreds (and, once per protocol, tens of thousands) of calls on one
    // generator, tiny pickles; every call compared with a fresh generator
    let r = run_prop(ctx, 3, ctx.n(160, 3_000), || long_strategy(&small), |c: &SeqCase, st: &mut Stats| {
        st.label("(c) history of 260..520 calls on one generator");
        check_c08(ctx, c, st)
    });
    out.absorb(r);
    if out.failed() {
        return out;
    }
    let n_calls = ctx.n(70_000, 300_000) as usize;
    let items: Vec<SeqCase> = (0u8..=5)
        .map(|p| {
            let mut base = GenCase::default_for(p, ctx.seed ^ 0x10c0 ^ p as u64);
            base.min_opcodes = 1;
            base.max_opcodes = 6;
            let ops = (0..n_calls).map(|i| if i % 3 == 0 { Op::Generate } else { Op::FromBytes(vec![(i % 251) as u8, (i / 251 % 256) as u8, (i >> 16) as u8]) }).collect();
            SeqCase { base, ops, unseeded: false }
        })
        .collect();
    let (st, found) = run_enum(items, |c, st| {
        st.label("(c) history of tens of thousands of calls on one generator");
        check_c08(ctx, c, st)
    });
    out.stats.merge(st);
    if let Some((c, f)) = found {
        // keep the replay small: the failing call index is in the message
        out.violation = Some(Violation { fail: f, case: serde_json::to_value(&c).unwrap() });
    }
    out
}

// ------------------------------------------------------------------------------------------
// C14: leaks
// ------------------------------------------------------------------------------------------

fn warm_up() {
    // first generation on this thread: one-time allocations (stdlib table, TLS) happen here
    for p in 0..=5u8 {
        let _ = GenCase::default_for(p, 1).run();
    }
}

/// build, run the sequence, drop - and report live bytes before / after on the executing thread
fn c14_measure(sc: &SeqCase) -> (i64, i64, bool, bool, u64) {
    let mut dup_then_mutation = false;
    let mut failed = false;
    let mut out_digest = 0u64;
    let before = alloc::live();
    {
        let mut g = seq_build(sc);
        for op in &sc.ops {
            match entropy_of(&sc.base, op) {
                None if matches!(op, Op::TakeOutput) => {
                    let _ = std::mem::take(&mut g.output);
                }
                None if matches!(op, Op::SetRange(..) | Op::SetMin(_) | Op::SetMax(_) | Op::SetVersion(_)) => match op {
                    Op::SetRange(a, b) => {
                        g.min_opcodes = *a;
                        g.max_opcodes = *b;
                    }
                    Op::SetMin(a) => g.min_opcodes = *a,
                    Op::SetMax(b) => g.max_opcodes = *b,
                    Op::SetVersion(v) => g.state.version = pickle_fuzzer::Version::try_from(*v as usize).expect("protocol 0..=5"),
                    _ => {}
                },
                None => g.reset(),
                Some(e) => match call_gen(&mut g, &e) {
                    Ok(o) => {
                        // classification only; everything allocated here is dropped before `after`
                        if let Some(d) = o.iter().position(|b| *b == t::DUP) {
                            if o[d..].iter().any(|b| [t::APPEND, t::SETITEM, t::BUILD, t::APPENDS, t::SETITEMS, t::ADDITEMS].contains(b)) {
                                dup_then_mutation = true;
                            }
                        }
                        out_digest ^= util::digest(&o);
                    }
                    Err(_) => failed = true,
                },
            }
        }
        drop(g);
    }
    let after = alloc::live();
    (before, after, failed, dup_then_mutation, out_digest)
}

pub fn check_c14(ctx: &Ctx, sc: &SeqCase, st: &mut Stats) -> Result<(), Fail> {
    // one warm-up per *process* (the property: "after the first warm-up call"), done on whichever thread
    // comes first; every other thread starts cold, so state that is lazily allocated per thread and never
    // released is seen as what it is
    static WARM: std::sync::Once = std::sync::Once::new();
    WARM.call_once(warm_up);
    // every 32nd case is measured on a brand-new thread: nothing may be allocated "once per thread" and kept
    let fresh_thread = util::digest_str(&format!("{}{}", sc.base.brief(), sc.ops.len())) % 32 == 0;
    let (before, after, failed, dup_then_mutation, out_digest) = if fresh_thread {
        st.label("measured on a freshly spawned thread");
        let sc2 = sc.clone();
        std::thread::Builder::new().stack_size(64 << 20).spawn(move || c14_measure(&sc2)).expect("spawn").join().expect("join")
    } else {
        c14_measure(sc)
    };
    if failed {
        st.label("a generation failed (skipped; C09 decides)");
        return Ok(());
    }
    if after != before {
        return ctx.fail(
            st,
            Fail::new(
                "leak",
                format!("{} bytes still allocated after the generator was dropped (live before Generator::new: {}, after drop: {})", after - before, before, after),
            ),
        );
    }
    if dup_then_mutation {
        st.label("output has DUP followed by a container-mutating opcode byte");
        st.nontrivial(out_digest);
        st.sample(|| json!({"config": sc.base.brief(), "ops": sc.ops.len(), "live_before": before, "live_after": after}));
    }
    Ok(())
}


/// a generator that lives for thousands of calls: what it holds after `reset()` must not keep growing
/// (buffers may keep the capacity of the largest pickle seen; nothing may accumulate per call)
fn check_c14_long_lived(ctx: &Ctx, protocol: u8, ext: bool, st: &mut Stats) -> Result<(), Fail> {
    let mut base = GenCase::default_for(protocol, ctx.seed ^ 0x11fe ^ protocol as u64);
    base.allow_ext = ext;
    base.allow_buffer = ext;
    base.mutators = vec![case::MutK::Boundary, case::MutK::Stringlen];
    let (warm, measured) = (400usize, if ctx.thorough() { 20_000usize } else { 3_000 });
    let run = move || -> (i64, i64) {
        let mut g = base.build(None);
        let input = |i: usize| -> Vec<u8> { (0..96).map(|k| ((i * 131 + k * 17) ^ (i >> 3)) as u8).collect() };
        for i in 0..warm {
            let _ = call_gen(&mut g, &Entropy::Bytes(input(i)));
            g.seed = Some(i as u64 ^ 0xabcd);
            let _ = call_gen(&mut g, &Entropy::Seed(0));
        }
        g.reset();
        let a = alloc::live();
        for i in warm..warm + measured {
            if i % 3 == 0 {
                let _ = call_gen(&mut g, &Entropy::Bytes(input(i)));
            } else {
                // a different seed per call, through the public field
                g.seed = Some((i as u64).wrapping_mul(0x9e37_79b9_7f4a_7c15));
                let _ = call_gen(&mut g, &Entropy::Seed(0));
            }
        }
        g.reset();
        let b = alloc::live();
        (a, b)
    };
    let (a, b) = std::thread::Builder::new().stack_size(64 << 20).spawn(run).expect("spawn").join().map_err(|_| Fail::new("harness:thread", "measurement thread died".to_string()))?;
    st.evaluations += measured as u64;
    st.add("long-lived generator: calls between the two measurements after reset()", measured as u64);
    st.nontrivial(util::digest_str(&format!("ll{}{}", protocol, ext)));
    // capacities settle during the warm-up; 256 KiB is room for a late largest-ever pickle, far below what
    // retaining even 100 bytes per call adds up to
    if b - a > 256 * 1024 {
        return ctx.fail(
            st,
            Fail::new(
                "leak:grows-across-resets",
                format!("protocol {} ext/buffer={}: one generator, {} warm-up calls, then {} calls: live heap after reset() grew from {} to {} bytes (+{})", protocol, ext, warm, measured, a, b, b - a),
            ),
        );
    }
    Ok(())
}

pub fn run_c14(ctx: &Ctx) -> Outcome {
    let mut out = Outcome::new(
        "Sequences of generate / generate_from_arbitrary / reset (length 1..6) followed by drop, all protocols and configurations incl. unsafe. \
         Oracle: per-thread live-bytes counter of a counting #[global_allocator] in the harness; after one warm-up generation per thread, \
         live(before Generator::new) == live(after drop), exact equality. Non-trivial = an output contains a DUP byte followed later by an \
         APPEND/SETITEM/BUILD/APPENDS/SETITEMS/ADDITEMS byte (the shape in which aliasing could form a cycle). Long-lived generators (12: protocol x \
         opt-in flags): live bytes after reset() after 400 calls and after 3 000 more must not differ by more than 256 KiB. Plus, for the one long-running \
         process the tool ships (CLI batch mode): the peak resident set (/usr/bin/time %M) of a 300-pickle and of a 6 000-pickle (24 000 thorough) \
         batch of 1500..2500-opcode pickles, two protocols and worker counts; oracle: the difference stays below half of the bytes the larger \
         batch wrote (>= 32 MiB), i.e. the process does not keep what it has generated; and for the Python front end (the Atheris mutator): \
         8 000 (60 000 thorough) mutate() / generate_from_bytes() calls on distinct inputs in one process - Python-level allocations (tracemalloc) must not \
         grow by more than 256 KiB + 1/64 of the bytes returned, the resident set not by more than half of them + 16 MiB, and 200 mutator objects \
         used once and dropped must be collectable.",
    );
    let mut p = Profile::full();
    p.size = SizeMode::Mixed;
    let r = run_prop(ctx, 1, ctx.n(60_000, 2_000_000), || seq_strategy(&p, 6), |c: &SeqCase, st: &mut Stats| check_c14(ctx, c, st));
    out.absorb(r);
    out.assumptions = vec!["allocations are counted per thread; a generator lives and dies on one thread".into()];
    if !out.failed() && out.inconclusive.is_none() {
        'll: for p in 0u8..=5 {
            for ext in [false, true] {
                let mut st = Stats::default();
                let r = check_c14_long_lived(ctx, p, ext, &mut st);
                out.stats.merge(st);
                match r {
                    Ok(()) => {}
                    Err(f) if f.sig.starts_with("harness:") => {
                        out.inconclusive = Some(f.msg);
                        break 'll;
                    }
                    Err(f) => {
                        out.violation = Some(Violation { fail: f, case: json!({"c14_long_lived": {"protocol": p, "ext": ext}}) });
                        break 'll;
                    }
                }
            }
        }
    }
    crate::props::frontends::run_c14_cli(ctx, &mut out);
    crate::props::frontends::run_c14_python(ctx, &mut out);
    out
}

// ------------------------------------------------------------------------------------------
// C12: reachability
// ------------------------------------------------------------------------------------------

pub fn expected_vocabulary(p: u8, ext: bool, buf: bool) -> Vec<u8> {
    t::OPCODES
        .iter()
        .filter(|o| o.proto <= p)
        .filter(|o| ext || ![t::EXT1, t::EXT2, t::EXT4].contains(&o.code))
        .filter(|o| buf || ![t::NEXT_BUFFER, t::READONLY_BUFFER].contains(&o.code))
        .map(|o| o.code)
        .collect()
}

pub fn run_c12(ctx: &Ctx) -> Outcome {
    let mut out = Outcome::new(
        "Existential: for each protocol P, default settings, seeds VERIF_SEED*1000003 .. +N-1 (N = 25 000 quick / 250 000 thorough; 4N for \
         protocols 4 and 5 whose rarest opcode NEWOBJ_EX occurs in ~0.03 % of outputs), plus one batch per protocol with both opt-in flags on \
         (N/5 seeds) that must witness the opt-in opcodes. Oracle: the union of decoded opcode sets must contain every opcode of the \
         independent table with proto <= P (EXT*/buffer only in the opt-in batch; PROTO for P>=2; FRAME for P>=4) and for P>=4 both framed and \
         unframed outputs must occur. Non-trivial = output contains one of the ten rarest opcodes of its batch; witness seeds are recorded.",
    );
    let n = ctx.n(25_000, 250_000);
    let base = ctx.seed.wrapping_mul(1_000_003);
    let mut witnesses: BTreeMap<String, serde_json::Value> = BTreeMap::new();
    for p in 0u8..=5 {
        // NEWOBJ_EX occurs in only ~0.03 % of protocol 4/5 outputs: four times as many seeds there keep
        // the expected number of witnesses of the rarest opcode >= 24 (chance miss < e^-24)
        let n_default = if p >= 4 { 4 * n } else { n };
        for (ext, cnt) in [(false, n_default), (true, n / 5)] {
            // per-thread histograms: opcode -> (count of outputs containing it, first witness seed)
            let per = cnt.div_ceil(THREADS as u64);
            let results: Vec<(Vec<u64>, Vec<Option<u64>>, u64, u64, u64)> = std::thread::scope(|sc| {
                let hs: Vec<_> = (0..THREADS as u64)
                    .map(|w| {
                        sc.spawn(move || {
                            let mut occ = vec![0u64; 256];
                            let mut wit: Vec<Option<u64>> = vec![None; 256];
                            let (mut framed, mut unframed, mut bad) = (0u64, 0u64, 0u64);
                            for i in (w * per)..((w + 1) * per).min(cnt) {
                                let seed = base.wrapping_add(i);
                                let mut c = GenCase::default_for(p, seed);
                                c.allow_ext = ext;
                                c.allow_buffer = ext;
                                match c.run() {
                                    Ok(o) => {
                                        let (ops, _, _, hist) = analyze_output(&o, false);
                                        if ops.is_err() {
                                            bad += 1;
                                            continue;
                                        }
                                        for code in 0..256 {
                                            if hist[code] > 0 {
                                                occ[code] += 1;
                                                if wit[code].is_none() {
                                                    wit[code] = Some(seed);
                                                }
                                            }
                                        }
                                        if hist[t::FRAME as usize] > 0 {
                                            framed += 1;
                                        } else {
                                            unframed += 1;
                                        }
                                    }
                                    Err(_) => bad += 1,
                                }
                            }
                            (occ, wit, framed, unframed, bad)
                        })
                    })
                    .collect();
                hs.into_iter().map(|h| h.join().unwrap()).collect()
            });
            let mut occ = vec![0u64; 256];
            let mut wit: Vec<Option<u64>> = vec![None; 256];
            let (mut framed, mut unframed, mut bad) = (0u64, 0u64, 0u64);
            for (o, w, f, u, b) in results {
                for c in 0..256 {
                    occ[c] += o[c];
                    if wit[c].is_none() {
                        wit[c] = w[c];
                    }
                }
                framed += f;
                unframed += u;
                bad += b;
            }
            out.stats.evaluations += cnt;
            out.stats.add("outputs skipped (generation failed or undecodable; C09/C04 decide)", bad);
            // the opt-in batch is 5x smaller: it only has to witness the opt-in opcodes themselves
            // (a rare opcode such as NEWOBJ_EX, ~0.05 % of outputs, is the default batch's job)
            let vocab: Vec<u8> = if ext {
                expected_vocabulary(p, true, true).into_iter().filter(|c| [t::EXT1, t::EXT2, t::EXT4, t::NEXT_BUFFER, t::READONLY_BUFFER].contains(c)).collect()
            } else {
                expected_vocabulary(p, false, false)
            };
            if vocab.is_empty() {
                continue;
            }
            let batch = format!("P{}{}", p, if ext { "+ext+buffer" } else { "" });
            let mut rare: Vec<(u64, u8)> = vocab.iter().map(|c| (occ[*c as usize], *c)).collect();
            rare.sort();
            let mut w = serde_json::Map::new();
            for (n_occ, code) in rare.iter().take(10) {
                w.insert(t::name_of(*code).to_string(), json!({"outputs_containing": n_occ, "first_seed": wit[*code as usize]}));
                // each rare witness is a distinct non-trivial case
                if let Some(s) = wit[*code as usize] {
                    out.stats.nontrivial(util::mix(s ^ ((p as u64) << 40) ^ ((*code as u64) << 48) ^ ((ext as u64) << 56)));
                }
            }
            w.insert("_framed/unframed".into(), json!([framed, unframed]));
            witnesses.insert(batch.clone(), serde_json::Value::Object(w));
            for code in &vocab {
                if occ[*code as usize] == 0 {
                    let f = Fail::new(
                        format!("unreachable:{}@{}", t::name_of(*code), batch),
                        format!("no output of {} seeds for {} contains {}", cnt, batch, t::name_of(*code)),
                    );
                    let mut s = Stats::default();
                    if ctx.fail(&mut s, f.clone()).is_err() {
                        out.violation = Some(Violation { fail: f, case: json!({"reach": {"protocol": p, "opt_in": ext, "first_seed": base, "seeds": cnt, "opcode": t::name_of(*code)}}) });
                        out.extra.insert("witnesses".into(), json!(witnesses));
                        return out;
                    }
                    out.stats.merge(s);
                }
            }
            if p >= 4 && (framed == 0 || unframed == 0) {
                let f = Fail::new(format!("frame-choice@{}", batch), format!("{}: framed outputs {}, unframed outputs {}", batch, framed, unframed));
                let mut s = Stats::default();
                if ctx.fail(&mut s, f.clone()).is_err() {
                    out.violation = Some(Violation { fail: f, case: json!({"reach": {"protocol": p, "opt_in": ext, "first_seed": base, "seeds": cnt, "opcode": "FRAME"}}) });
                    return out;
                }
            }
            if out.stats.samples.len() < 4 {
                let (n_occ, code) = rare[0];
                out.stats.samples.push(json!({"batch": batch, "rarest_opcode": t::name_of(code), "outputs_containing_it": n_occ, "witness_seed": wit[code as usize]}));
            }
        }
    }
    out.extra.insert("witnesses".into(), json!(witnesses));
    out.assumptions = vec!["a miss is reported as a violation because the rarest opcode (NEWOBJ_EX in protocol 5, ~6 per 25 000 default outputs) has >= 24 expected witnesses at the quick batch size (probability of a chance miss < e^-24)".into()];
    out
}

// ------------------------------------------------------------------------------------------
// C07 (in-process part): same case, fresh instances, different threads
// ------------------------------------------------------------------------------------------

pub fn interesting_for_c07(out: &[u8]) -> bool {
    let (ops, _, run, hist) = analyze_output(out, true);
    if ops.is_err() {
        return false;
    }
    let gets: u32 = GETS.iter().map(|g| hist[*g as usize]).sum();
    run.map_or(false, |r| r.memo_size >= 2) && gets >= 1
}

pub fn check_c07_inproc(ctx: &Ctx, c: &GenCase, st: &mut Stats) -> Result<(), Fail> {
    let a = c.run();
    let b = c.run();
    // a third run on a brand-new thread (fresh HashMap RandomState keys, different stack addresses)
    let c2 = c.clone();
    let t3 = std::thread::Builder::new().stack_size(64 << 20).spawn(move || c2.run()).unwrap().join().unwrap();
    match (&a, &b, &t3) {
        (Ok(x), Ok(y), Ok(z)) => {
            if x != y || x != z {
                let class = if x != y { "same-thread" } else { "other-thread" };
                return ctx.fail(
                    st,
                    Fail::new(
                        format!("nondeterministic:{}", class),
                        format!("two fresh generators with equal configuration and entropy returned different bytes ({}): digests {:016x} {:016x} {:016x}", class, util::digest(x), util::digest(y), util::digest(z)),
                    )
                    .with_output(x),
                );
            }
            if interesting_for_c07(x) || (!c.mutators.is_empty() && c.rate.effective() > 0.0) {
                st.nontrivial(util::digest(x));
                st.sample(|| json!({"case": c.brief(), "digest": format!("{:016x}", util::digest(x)), "len": x.len()}));
            }
            Ok(())
        }
        (Err(_), Err(_), Err(_)) => {
            st.label("generation failed every time (skipped; C09 decides)");
            Ok(())
        }
        _ => ctx.fail(st, Fail::new("nondeterministic:outcome", "generation succeeded in one run and failed in another".to_string())),
    }
}

pub fn replay_c14_long_lived(ctx: &Ctx, v: &serde_json::Value) -> Result<(), Fail> {
    let mut st = Stats::default();
    check_c14_long_lived(ctx, v["protocol"].as_u64().unwrap_or(2) as u8, v["ext"].as_bool().unwrap_or(true), &mut st)
}
