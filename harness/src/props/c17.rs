//! C17: the generator's simulated stack / memo after every emission vs. the reference machine
//! executing the bytes emitted so far.

use crate::analysis::{analyze, Analysis, Want, GETS, MARK_CONSUMERS};
use crate::case::{GenCase, Profile, SizeMode};
use crate::refpvm::lexer;
use crate::refpvm::machine::{Kind, Machine};
use crate::refpvm::optable as t;
use crate::runner::{run_prop, Ctx, Fail, Outcome, Stats};
use crate::util;
use pickle_fuzzer::verif::{self, tag, Trace};
use serde_json::json;

pub fn tag_name(x: u8) -> &'static str {
    match x {
        tag::INT => "Int",
        tag::FLOAT => "Float",
        tag::BOOL => "Bool",
        tag::NONE => "None",
        tag::BYTES => "Bytes",
        tag::STRING => "String",
        tag::BYTEARRAY => "ByteArray",
        tag::LIST => "List",
        tag::TUPLE => "Tuple",
        tag::DICT => "Dict",
        tag::SET => "Set",
        tag::FROZENSET => "FrozenSet",
        tag::MARK => "MARK",
        tag::GLOBAL => "Global",
        tag::INSTANCE => "Instance",
        tag::CALLABLE => "Callable",
        tag::EXTENSION => "Extension",
        tag::ANY => "Any",
        _ => "?",
    }
}

/// is the generator's belief `g` compatible with the reference kind `r` of the same slot?
pub fn compatible(g: u8, r: Kind) -> bool {
    if r == Kind::Mark || g == tag::MARK {
        return r == Kind::Mark && g == tag::MARK;
    }
    if r == Kind::Any || g == tag::ANY {
        return true;
    }
    match r {
        Kind::Int | Kind::Bool => g == tag::INT || g == tag::BOOL,
        Kind::Float => g == tag::FLOAT,
        Kind::None => g == tag::NONE,
        Kind::Bytes | Kind::Buffer => g == tag::BYTES,
        Kind::Str => g == tag::STRING,
        Kind::ByteArray => g == tag::BYTEARRAY,
        Kind::List => g == tag::LIST,
        Kind::Tuple => g == tag::TUPLE,
        Kind::Dict => g == tag::DICT,
        Kind::Set => g == tag::SET,
        Kind::FrozenSet => g == tag::FROZENSET,
        Kind::Callable => g == tag::CALLABLE || g == tag::GLOBAL,
        Kind::Instance => g == tag::INSTANCE,
        Kind::Mark | Kind::Any => unreachable!(),
    }
}

pub struct CmpStats {
    pub steps_compared: usize,
    pub content_dependent_steps: usize,
    pub gets_beyond_255: usize,
}

/// Execute `out` on the reference machine, one opcode per trace step, and compare states.
pub fn compare(out: &[u8], tr: &Trace) -> Result<CmpStats, Fail> {
    let mut m = Machine::new();
    let mut pos = 0usize;
    let mut idx = 0usize;
    // header (PROTO, FRAME)
    while pos < tr.header_len {
        let op = lexer::lex_one(out, pos).map_err(|e| Fail::new("header-undecodable", e.to_string()))?;
        let so = m.step(idx, &op);
        if let Some(f) = so.fault {
            return Err(Fail::new(format!("ref-fault:{}:{}", f.class, t::name_of(f.code)), f.to_string()));
        }
        pos += op.len;
        idx += 1;
    }
    if pos != tr.header_len {
        return Err(Fail::new("header-misaligned", format!("header ends at {} but trace says {}", pos, tr.header_len)));
    }
    let mut cs = CmpStats { steps_compared: 0, content_dependent_steps: 0, gets_beyond_255: 0 };
    for (i, s) in tr.steps.iter().enumerate() {
        if s.out_len > out.len() || s.out_len <= pos {
            return Err(Fail::new("step-misaligned", format!("step {} ends at {} (previous end {}, output {})", i, s.out_len, pos, out.len())));
        }
        let op = lexer::lex_one(&out[..s.out_len], pos).map_err(|e| Fail::new("step-undecodable", format!("step {}: {}", i, e)))?;
        if pos + op.len != s.out_len {
            return Err(Fail::new(
                "step-misaligned",
                format!("step {} wrote bytes {}..{} but the opcode there ({}) spans {}", i, pos, s.out_len, op.info.name, op.len),
            ));
        }
        let is_stop = s.phase == verif::PHASE_STOP;
        if is_stop {
            // pickletools pops the result at STOP, the simulation keeps it: compare *before* it
            if m.stack.len() != 1 {
                return Err(Fail::new("stop-depth", format!("reference stack depth before STOP is {}", m.stack.len())));
            }
        }
        let so = m.step(idx, &op);
        if let Some(f) = so.fault {
            return Err(Fail::new(format!("ref-fault:{}:{}", f.class, t::name_of(f.code)), format!("step {}: {}", i, f)));
        }
        pos = s.out_len;
        idx += 1;
        if is_stop {
            continue;
        }
        let name = op.info.name;
        if s.stack.len() != m.stack.len() {
            return Err(Fail::new(
                format!("depth:{}", name),
                format!("after step {} ({}): simulated depth {} != reference depth {}", i, name, s.stack.len(), m.stack.len()),
            ));
        }
        for (j, (g, r)) in s.stack.iter().zip(m.stack.iter()).enumerate() {
            if !compatible(*g, *r) {
                let class = if *g == tag::MARK || *r == Kind::Mark { "mark-position" } else { "kind" };
                return Err(Fail::new(
                    format!("{}:{}", class, name),
                    format!("after step {} ({}): slot {} simulated {} vs reference {}", i, name, j, tag_name(*g), r.short()),
                ));
            }
        }
        if m.memo.len() > 256 && GETS.contains(&op.code()) && op.int().map_or(false, |i| i >= 256) {
            cs.gets_beyond_255 += 1;
        }
        let refkeys: Vec<usize> = m.memo.keys().map(|k| *k as usize).collect();
        if refkeys != s.memo {
            return Err(Fail::new(
                format!("memo-keys:{}", name),
                format!("after step {} ({}): simulated memo keys {:?} != reference {:?}", i, name, trunc(&s.memo), trunc(&refkeys)),
            ));
        }
        for ((k, g), r) in s.memo.iter().zip(s.memo_kinds.iter()).zip(m.memo.values()) {
            if !compatible(*g, *r) {
                return Err(Fail::new(
                    format!("memo-kind:{}", name),
                    format!("after step {} ({}): memo[{}] simulated {} vs reference {}", i, name, k, tag_name(*g), r.short()),
                ));
            }
        }
        cs.steps_compared += 1;
        let c = op.code();
        if MARK_CONSUMERS.contains(&c) || GETS.contains(&c) || c == t::DUP || c == t::BUILD {
            cs.content_dependent_steps += 1;
        }
    }
    if pos != out.len() {
        return Err(Fail::new("trailing-bytes", format!("{} bytes after the last traced emission", out.len() - pos)));
    }
    Ok(cs)
}

fn trunc(v: &[usize]) -> Vec<usize> {
    v.iter().take(12).copied().collect()
}

pub const WANT: Want = Want { steps: true, state: true, valid: false, spy: false, machine: false };

pub fn judge(a: &Analysis, st: &mut Stats) -> Result<bool, Fail> {
    let out = a.output().unwrap();
    let cs = compare(out, &a.trace)?;
    st.add("steps compared", cs.steps_compared as u64);
    st.add("content-dependent steps compared", cs.content_dependent_steps as u64);
    st.add("GET-family steps with a memo index >= 256", cs.gets_beyond_255 as u64);
    Ok(cs.steps_compared >= 20 && cs.content_dependent_steps >= 1)
}

pub fn check_case(ctx: &Ctx, c: &GenCase, st: &mut Stats) -> Result<(), Fail> {
    let a = analyze(c, WANT);
    st.label(&format!("protocol={}", c.protocol));
    if a.result.is_err() {
        st.label("generation-failed(skipped; C09 decides)");
        return Ok(());
    }
    match judge(&a, st) {
        Ok(nt) => {
            if nt {
                st.nontrivial(util::digest(a.output().unwrap()));
                st.sample(|| {
                    let last = a.trace.steps.iter().rev().nth(1);
                    json!({"case": c.brief(), "steps": a.trace.steps.len(), "output_len": a.output().unwrap().len(),
                           "state_before_stop": last.map(|s| s.stack.iter().map(|x| tag_name(*x)).collect::<Vec<_>>())})
                });
            }
            Ok(())
        }
        Err(f) => ctx.fail(st, f.with_output(a.output().unwrap())),
    }
}

pub fn run(ctx: &Ctx) -> Outcome {
    let mut out = Outcome::new(
        "Safe GenCases (all protocols, both entropy modes, safe mutator subsets at any rate, EXT/buffer flags drawn) with the per-emission \
         trace hook, plus bounded enumeration of the decision tree. Oracle: the reference machine executes the final bytes one opcode per \
         traced emission (offsets must coincide); after each emission depth, MARK positions, slot-by-slot kind compatibility, memo key set and \
         memo kinds must agree (STOP itself excluded: pickletools pops the result, the simulation keeps it). Non-trivial = >= 20 compared \
         steps and >= 1 step whose effect depends on operand contents (MARK consumer, GET, DUP, BUILD).",
    );
    let mut p = Profile::safe();
    p.size = SizeMode::Mixed;
    let r = run_prop(ctx, 1, ctx.n(40_000, 1_500_000), || crate::case::gencase(&p), |c: &GenCase, st: &mut Stats| check_case(ctx, c, st));
    out.absorb(r);
    let mut p5 = Profile::safe();
    p5.protocols = vec![5];
    let r = run_prop(ctx, 2, ctx.n(10_000, 300_000), || crate::case::gencase(&p5), |c: &GenCase, st: &mut Stats| check_case(ctx, c, st));
    out.absorb(r);
    // long histories: hundreds of memo entries (indices beyond one byte), deep stacks
    let mut big = Profile::safe();
    big.protocols = vec![1, 2, 3, 4, 5, 0];
    big.size = SizeMode::Range(3000, 7000);
    let r = run_prop(ctx, 3, ctx.n(320, 12_000), || crate::case::gencase(&big), |c: &GenCase, st: &mut Stats| {
        st.label("long history (3000-7000 opcodes)");
        check_case(ctx, c, st)
    });
    out.absorb(r);
    crate::props::tree::run_tree(ctx, &mut out, ctx.n(4, 5) as usize, crate::props::tree::TreeOracle::C17);
    crate::props::outputs::history_shards(ctx, &mut out, ctx.n(1_500, 30_000));
    out.assumptions = vec![
        "kind compatibility: reference Any (PERSID, EXT, STRING/BINSTRING family) matches any non-MARK belief; Int~Bool; NEXT_BUFFER's buffer ~ Bytes placeholder".into(),
        "the trace hook reports the simulated state faithfully (read-only; src/verif.rs)".into(),
    ];
    out
}
