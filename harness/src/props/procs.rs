//! Process-level harnessing: C09 (totality; cases run in a child process on 2 MiB stacks so aborts
//! and stack overflows are visible) and C07 (determinism across threads, processes, batch workers).

use crate::case::{self, Entropy, Failure, GenCase, MutK, Profile, RateMode, RateSpec, SizeMode};
use crate::props::frontends::{self, materialise};
use crate::props::lib_level;
use crate::runner::{run_enum, run_prop, Ctx, Fail, Outcome, Stats, Violation, THREADS};
use crate::util;
use pickle_fuzzer::verif;
use serde_json::{json, Value};
use std::io::{Seek, SeekFrom, Write};
use std::process::{Command, Stdio};
use std::time::{Duration, Instant};

// ------------------------------------------------------------------------------------------
// C09
// ------------------------------------------------------------------------------------------

thread_local! {
    static CUR: std::cell::RefCell<Option<std::fs::File>> = const { std::cell::RefCell::new(None) };
}

/// remember (in a per-thread file that survives the death of the process) which case is running
fn note_current(ctx: &Ctx, case: &GenCase) {
    CUR.with(|c| {
        let mut c = c.borrow_mut();
        if c.is_none() {
            let path = format!("{}/work/c09-cur-{}-{:?}.json", ctx.verif_dir, std::process::id(), std::thread::current().id());
            *c = std::fs::File::create(path).ok();
        }
        if let Some(f) = c.as_mut() {
            let s = serde_json::to_vec(case).unwrap_or_default();
            let _ = f.seek(SeekFrom::Start(0));
            let _ = f.write_all(&s);
            let _ = f.set_len(s.len() as u64);
        }
    });
}

/// the case noted by `note_current` finished (an empty breadcrumb = nothing in flight)
fn note_done() {
    CUR.with(|c| {
        if let Some(f) = c.borrow_mut().as_mut() {
            let _ = f.seek(SeekFrom::Start(0));
            let _ = f.set_len(0);
        }
    });
}

pub fn fuel_for(c: &GenCase) -> u64 {
    crate::case::budgets(c.min_opcodes, c.max_opcodes).0
}

type Job = (GenCase, std::sync::mpsc::Sender<Result<Vec<u8>, Failure>>);

thread_local! {
    /// a persistent helper thread with the Rust default 2 MiB stack, one per calling thread
    static SMALL: std::cell::RefCell<Option<std::sync::mpsc::Sender<Job>>> = const { std::cell::RefCell::new(None) };
}

fn spawn_small() -> std::sync::mpsc::Sender<Job> {
    let (tx, rx) = std::sync::mpsc::channel::<Job>();
    std::thread::Builder::new()
        .stack_size(2 << 20)
        .spawn(move || {
            while let Ok((c, back)) = rx.recv() {
                // build, generate and drop (recursive Drop of nested tuples included) all happen here;
                // `run` arms the emission and entropy-draw budgets (case::budgets) for every call
                let r = c.run();
                if back.send(r).is_err() {
                    break;
                }
            }
        })
        .expect("spawn small-stack thread");
    tx
}

/// one generation (build, call, drop) on a thread with the Rust default 2 MiB stack
pub fn run_on_small_stack(c: &GenCase) -> Result<Vec<u8>, Failure> {
    SMALL.with(|s| {
        let mut s = s.borrow_mut();
        for _attempt in 0..2 {
            if s.is_none() {
                *s = Some(spawn_small());
            }
            let (btx, brx) = std::sync::mpsc::channel();
            if s.as_ref().unwrap().send((c.clone(), btx)).is_err() {
                *s = None;
                continue;
            }
            match brx.recv() {
                Ok(r) => return r,
                Err(_) => {
                    // the helper died while running the case: a panic escaped catch_unwind
                    *s = None;
                    return Err(Failure::Panic("the generation thread died (panic outside catch_unwind, e.g. while dropping)".into()));
                }
            }
        }
        Err(Failure::Panic("cannot start a generation thread".into()))
    })
}

fn normalise(msg: &str) -> String {
    let mut s: String = msg.chars().map(|c| if c.is_ascii_digit() { 'N' } else { c }).collect();
    while s.contains("NN") {
        s = s.replace("NN", "N");
    }
    s.chars().take(60).collect()
}

pub fn check_c09(ctx: &Ctx, c: &GenCase, st: &mut Stats) -> Result<(), Fail> {
    note_current(ctx, c);
    let degenerate = c.unsafe_mutations
        || !(0.0..=1.0).contains(&c.rate.value())
        || c.min_opcodes >= c.max_opcodes
        || matches!(&c.entropy, Entropy::Bytes(b) if b.len() < 64)
        || c.min_opcodes.max(c.max_opcodes) >= 5000;
    if c.min_opcodes.max(c.max_opcodes) >= 20000 {
        st.label("opcode count >= 20000");
    }
    if c.rate.value().is_nan() {
        st.label("rate NaN");
    }
    if !(0.0..=1.0).contains(&c.rate.value()) {
        st.label("rate outside [0,1] (or NaN)");
    }
    if c.min_opcodes > c.max_opcodes {
        st.label("range:min>max");
    }
    if c.unsafe_mutations {
        st.label("unsafe");
    }
    let result = run_on_small_stack(c);
    note_done();
    match result {
        Ok(o) if !o.is_empty() => {
            if degenerate {
                st.nontrivial(util::digest(&o) ^ util::digest_str(&c.brief()));
                st.sample(|| json!({"case": c.brief(), "output_len": o.len()}));
            }
            Ok(())
        }
        Ok(_) => ctx.fail(st, Fail::new("empty-output", format!("{} returned Ok with an empty byte string", c.brief()))),
        Err(Failure::Err(e)) => ctx.fail(st, Fail::new(format!("returned-err:{}", normalise(&e)), format!("{} returned Err: {}", c.brief(), e))),
        Err(Failure::Panic(p)) => {
            let class = if p.contains(verif::FUEL_PANIC) {
                "runaway-emission".to_string()
            } else if p.contains(verif::DRAW_FUEL_PANIC) {
                "runaway-entropy-draws".to_string()
            } else {
                format!("panic:{}", normalise(&p))
            };
            ctx.fail(st, Fail::new(class, format!("{} panicked: {}", c.brief(), p)))
        }
    }
}

fn enum_configs(protocol: u8, which: u8, range: (usize, usize)) -> GenCase {
    let mut c = GenCase::default_for(protocol, 0);
    c.min_opcodes = range.0;
    c.max_opcodes = range.1;
    match which {
        0 => {}
        1 => {
            c.mutators = case::ALL_MUTK.to_vec();
            c.rate = RateSpec::builder(1.0);
            c.unsafe_mutations = true;
        }
        _ => {
            c.allow_ext = true;
            c.allow_buffer = true;
            c.mutators = vec![MutK::Stringlen, MutK::Offbyone, MutK::Boundary];
            c.rate = RateSpec::builder(0.5);
        }
    }
    c
}

/// Entropy-draw budget: no opcode needs more than ~100 draws (a 31-character string, its
/// mutation, the opcode choice); 100 000 per opcode plus 10^6 is only ever exceeded by a loop
/// that keeps drawing without making progress, which it turns into a deterministic failure.
pub fn draw_fuel_for(c: &GenCase) -> u64 {
    crate::case::budgets(c.min_opcodes, c.max_opcodes).1
}

/// body of the child process
pub fn c09_child(ctx: &Ctx) -> i32 {
    let mut out = Outcome::new("");
    let light = std::env::var("C09_LIGHT").map_or(false, |v| v == "1");
    // (1) exhaustive: every fuzzer byte string of length <= 2 x 6 protocols x 3 configurations
    let range = if ctx.thorough() { (60, 300) } else { (5, 20) };
    let mut items: Vec<(u8, u8, Vec<u8>)> = Vec::new();
    for p in 0u8..=5 {
        for w in 0u8..3 {
            items.push((p, w, vec![]));
            for a in 0..=255u8 {
                items.push((p, w, vec![a]));
            }
            for x in 0..65536u32 {
                items.push((p, w, vec![(x >> 8) as u8, x as u8]));
            }
        }
    }
    if light {
        items.clear();
    }
    let n_enum = items.len();
    let (st, found) = run_enum(items, |(p, w, bytes), st| {
        let mut c = enum_configs(*p, *w, range);
        c.entropy = Entropy::Bytes(bytes.clone());
        check_c09(ctx, &c, st)
    });
    out.stats.merge(st);
    out.stats.add("exhaustive part: (protocol, configuration, byte string of length <= 2) triples", n_enum as u64);
    if let Some(((p, w, bytes), f)) = found {
        let mut c = enum_configs(p, w, range);
        c.entropy = Entropy::Bytes(bytes);
        out.violation = Some(Violation { fail: f, case: serde_json::to_value(&c).unwrap() });
    }
    // (2) generated configurations
    if !out.failed() {
        let mut p = Profile::full();
        p.rate = RateMode::Wild;
        p.size = if ctx.thorough() { SizeMode::WithHuge(20000, 50000) } else { SizeMode::WithHuge(20000, 24000) };
        let n = if light { ctx.n(12_000, 300_000) } else { ctx.n(40_000, 2_000_000) };
        let r = run_prop(ctx, if light { 2 } else { 1 }, n, || case::gencase(&p), |c: &GenCase, st: &mut Stats| check_c09(ctx, c, st));
        out.absorb(r);
    }
    // (3) long exhausted inputs: every choice falls back to index 0 -> deepest nesting
    if !out.failed() {
        let mut items = vec![];
        for p in 0u8..=5 {
            let sizes: &[usize] = if ctx.thorough() { &[1000, 5000, 20001, 30000, 50000] } else { &[1000, 5000, 20500] };
            for &n in sizes {
                for fill in [None, Some(0u8), Some(0xffu8)] {
                    let mut c = GenCase::default_for(p, 0);
                    c.min_opcodes = n;
                    c.max_opcodes = n;
                    c.entropy = Entropy::Bytes(match fill {
                        None => vec![],
                        Some(b) => vec![b; 64],
                    });
                    items.push(c);
                }
            }
        }
        // extreme upper bounds of the opcode range: with drained or all-zero fuzzer bytes the drawn count is the
        // lower bound, so the call is small - whatever is derived from the configured bound must not matter
        for p in 0u8..=5 {
            for max in [usize::MAX, usize::MAX - 1, 1usize << 62, 1 << 40, u32::MAX as usize, (u32::MAX as usize) + 1] {
                for (min, bytes) in [(0usize, vec![]), (3, vec![]), (37, vec![0u8; 64]), (1, vec![0u8; 3])] {
                    let mut c = GenCase::default_for(p, 0);
                    c.min_opcodes = min;
                    c.max_opcodes = max;
                    c.entropy = Entropy::Bytes(bytes);
                    c.build_style = if max % 2 == 1 { 1 } else { 0 };
                    items.push(c);
                }
            }
        }
        let (st, found) = run_enum(items, |c, st| check_c09(ctx, c, st));
        out.stats.merge(st);
        if let Some((c, f)) = found {
            out.violation = Some(Violation { fail: f, case: serde_json::to_value(&c).unwrap() });
        }
    }
    let res = json!({
        "evaluations": out.stats.evaluations,
        "labels": out.stats.labels,
        "nontrivial": out.stats.nontrivial.iter().collect::<Vec<_>>(),
        "samples": out.stats.samples,
        "excluded_known": out.stats.excluded_known,
        "violation": out.violation.as_ref().map(|v| json!({"sig": v.fail.sig, "msg": v.fail.msg, "case": v.case})),
    });
    let path = format!("{}/work/c09-result-{}.json", ctx.verif_dir, std::process::id());
    if std::fs::write(&path, serde_json::to_vec(&res).unwrap()).is_err() {
        return 3;
    }
    0
}

/// like `wait_with_timeout`, but also gives up when one case has been in flight for longer than
/// `stall` (its non-empty breadcrumb file has not changed); returns Err(case json) then
fn wait_watching(ctx: &Ctx, child: &mut std::process::Child, limit: Duration, stall: Duration) -> Result<Option<std::process::ExitStatus>, String> {
    let t0 = Instant::now();
    let pid = child.id();
    loop {
        match child.try_wait() {
            Ok(Some(s)) => return Ok(Some(s)),
            Ok(None) => {}
            Err(_) => return Ok(None),
        }
        if t0.elapsed() > limit {
            let _ = child.kill();
            let _ = child.wait();
            return Ok(None);
        }
        if let Ok(rd) = std::fs::read_dir(format!("{}/work", ctx.verif_dir)) {
            for e in rd.filter_map(|e| e.ok()) {
                let name = e.file_name().to_string_lossy().to_string();
                if !name.starts_with(&format!("c09-cur-{}-", pid)) {
                    continue;
                }
                let Ok(md) = e.metadata() else { continue };
                if md.len() == 0 {
                    continue;
                }
                let age = md.modified().ok().and_then(|m| m.elapsed().ok()).unwrap_or_default();
                if age > stall {
                    let case = std::fs::read_to_string(e.path()).unwrap_or_default();
                    let _ = child.kill();
                    let _ = child.wait();
                    return Err(case);
                }
            }
        }
        std::thread::sleep(Duration::from_millis(500));
    }
}

fn wait_with_timeout(child: &mut std::process::Child, limit: Duration) -> Option<std::process::ExitStatus> {
    let t0 = Instant::now();
    loop {
        match child.try_wait() {
            Ok(Some(s)) => return Some(s),
            Ok(None) => {
                if t0.elapsed() > limit {
                    let _ = child.kill();
                    let _ = child.wait();
                    return None;
                }
                std::thread::sleep(Duration::from_millis(100));
            }
            Err(_) => return None,
        }
    }
}

/// run one case in its own process; Ok(None) = survived, Ok(Some(desc)) = the process died
pub fn c09_one_in_child(ctx: &Ctx, case: &GenCase, limit: Duration) -> Result<Option<String>, String> {
    c09_one_with(ctx, &util::self_exe(), case, limit)
}

pub fn c09_one_with(ctx: &Ctx, exe: &std::path::Path, case: &GenCase, limit: Duration) -> Result<Option<String>, String> {
    let path = format!("{}/work/c09-one-{}.json", ctx.verif_dir, std::process::id());
    std::fs::write(&path, serde_json::to_vec(case).unwrap()).map_err(|e| e.to_string())?;
    let mut ch = Command::new(exe).args(["c09-one", &path]).stdout(Stdio::null()).stderr(Stdio::null()).spawn().map_err(|e| e.to_string())?;
    let st = wait_with_timeout(&mut ch, limit);
    let _ = std::fs::remove_file(&path);
    match st {
        None => Err("watchdog: the case did not finish in time".into()),
        Some(s) if s.success() => Ok(None),
        Some(s) if s.code() == Some(1) => Ok(None), // judged failure without dying: handled in-process
        Some(s) => Ok(Some(format!("{}", s))),
    }
}

/// run the C09 child (`pfverif c09-child`) from the given binary, watch it, fold its result into `out`
fn run_c09_child(ctx: &Ctx, out: &mut Outcome, exe: &std::path::Path, light: bool, tag: &str) {
    let mut child = match Command::new(exe).args(["c09-child", &ctx.tier]).env("VERIF_SEED", ctx.seed.to_string()).env("C09_LIGHT", if light { "1" } else { "0" }).env("VERIF_DIR", &ctx.verif_dir).stdout(Stdio::null()).spawn() {
        Ok(c) => c,
        Err(e) => {
            out.inconclusive = Some(format!("cannot spawn child: {}", e));
            return;
        }
    };
    let pid = child.id();
    let limit = Duration::from_secs(if ctx.thorough() { 3 * 3600 } else { 1500 });
    // slowest legitimate case of the tier: ~5 s (24 000 opcodes) quick, ~50 s (50 000 opcodes) thorough
    let stall = Duration::from_secs(if ctx.thorough() { 900 } else { 150 });
    let status = match wait_watching(ctx, &mut child, limit, stall) {
        Ok(s) => s,
        Err(case_json) => {
            let brief = serde_json::from_str::<GenCase>(&case_json).map(|c| c.brief()).unwrap_or(case_json);
            out.inconclusive = Some(format!(
                "watchdog: one generation did not finish within {} s and was killed (a spin that neither emits nor draws entropy cannot be told from slowness, so this is not reported as a violation): {}",
                stall.as_secs(),
                brief
            ));
            let cur: Vec<String> = std::fs::read_dir(format!("{}/work", ctx.verif_dir))
                .map(|d| d.filter_map(|e| e.ok()).map(|e| e.path().to_string_lossy().to_string()).filter(|p| p.contains(&format!("c09-cur-{}-", pid))).collect())
                .unwrap_or_default();
            for f in cur {
                let _ = std::fs::remove_file(f);
            }
            return;
        }
    };
    let cur_files: Vec<String> = std::fs::read_dir(format!("{}/work", ctx.verif_dir))
        .map(|d| d.filter_map(|e| e.ok()).map(|e| e.path().to_string_lossy().to_string()).filter(|p| p.contains(&format!("c09-cur-{}-", pid))).collect())
        .unwrap_or_default();
    let result_path = format!("{}/work/c09-result-{}.json", ctx.verif_dir, pid);
    let cleanup = |files: &Vec<String>| {
        for f in files {
            let _ = std::fs::remove_file(f);
        }
        let _ = std::fs::remove_file(&result_path);
    };
    match status {
        None => {
            out.inconclusive = Some("watchdog: the child did not finish within its time limit (a silent spin cannot be told from slowness)".into());
            cleanup(&cur_files);
            return;
        }
        Some(s) if s.success() => {}
        Some(s) => {
            // the child died: find the case that kills a process
            let mut culprit = None;
            for f in &cur_files {
                let Ok(txt) = std::fs::read(f) else { continue };
                let Ok(c) = serde_json::from_slice::<GenCase>(&txt) else { continue };
                if let Ok(Some(desc)) = c09_one_with(ctx, exe, &c, Duration::from_secs(600)) {
                    culprit = Some((c, desc));
                    break;
                }
            }
            cleanup(&cur_files);
            match culprit {
                Some((c, desc)) => {
                    out.stats.evaluations += 1;
                    let f = Fail::new("process-death", format!("{}generation killed the process ({}) for {}", tag, desc, c.brief()));
                    out.violation = Some(Violation { fail: f, case: serde_json::to_value(&c).unwrap() });
                }
                None => out.inconclusive = Some(format!("the child died ({}) but no single case reproduces it", s)),
            }
            return;
        }
    }
    let res: Value = match std::fs::read(&result_path).ok().and_then(|b| serde_json::from_slice(&b).ok()) {
        Some(v) => v,
        None => {
            out.inconclusive = Some("child produced no result file".into());
            cleanup(&cur_files);
            return;
        }
    };
    cleanup(&cur_files);
    out.stats.evaluations += res["evaluations"].as_u64().unwrap_or(0);
    if let Some(m) = res["labels"].as_object() {
        for (k, v) in m {
            out.stats.add(&format!("{}{}", tag, k), v.as_u64().unwrap_or(0));
        }
    }
    if let Some(a) = res["nontrivial"].as_array() {
        for x in a {
            if let Some(u) = x.as_u64() {
                out.stats.nontrivial(u);
            }
        }
    }
    if let Some(a) = res["samples"].as_array() {
        for x in a {
            if out.stats.samples.len() < crate::runner::MAX_SAMPLES {
                out.stats.samples.push(x.clone());
            }
        }
    }
    if let Some(m) = res["excluded_known"].as_object() {
        for (k, v) in m {
            out.stats.excluded_known.insert(k.clone(), v.as_u64().unwrap_or(0));
        }
    }
    if let Some(v) = res.get("violation").filter(|v| !v.is_null()) {
        out.violation = Some(Violation {
            fail: Fail::new(v["sig"].as_str().unwrap_or("?"), format!("{}{}", tag, v["msg"].as_str().unwrap_or("?"))),
            case: v["case"].clone(),
        });
    }
}

pub fn run_c09(ctx: &Ctx) -> Outcome {
    let mut out = Outcome::new(
        "Everything the public API reaches, run in a child process on threads with the Rust default 2 MiB stack (the smallest stack any entry \
         point of the tool uses: rayon batch workers): (1) exhaustively every fuzzer byte string of length <= 2 (65 793) x 6 protocols x 3 \
         configurations (default; all 7 mutators unsafe at rate 1.0; EXT+buffer with safe mutators), opcode range (5,20) quick / (60,300) \
         thorough; (2) generated GenCases incl. unsafe, rates NaN / +-inf / out of range through builder and public field, ranges (0,0), \
         min>max, reuse histories, alternative API entry points, up to 24 000 (quick) / 50 000 (thorough) opcodes; (3) long exhausted \
         inputs (1000..20 500 quick / ..50 000 thorough opcodes from empty / constant bytes: every choice falls back to index 0, deepest \
         nesting); (4) scripted towers `pre a^n mid b^m`: every one- and two-opcode word a (behind an optional one-opcode prefix) and every \
         open^n filler close^n triple over the protocol's opcode table is tried at n = 12 / 6 through the scripted-choice hook, the shapes \
         the generation loop follows are kept (one per word, growth, top of the final simulated stack and memo growth), classed by what they \
         accumulate (retained generator bytes per repetition, counting allocator) and re-run at n = 12 000 in the optimised build (half for \
         shapes that grow the stack; a seeded sample of the stack-growing and the inert shapes) and, one per skeleton (its non-push opcodes) of those that build nested or \
         memoised structure, at n = 6 000 in an unoptimised one (60 000 and 20 000, all shapes, thorough), each followed by a second call on the same generator and its drop. Oracle: Ok(non-empty); no panic (catch_unwind), no abort / stack overflow (child exit status; the killing case is \
         identified from a per-thread breadcrumb and confirmed alone in a fresh process); runaway budgets never exhausted: emissions <= \
         100*max(min,max)+10^4 and entropy draws <= 10^5 per opcode + 10^6 (far above any legitimate generation; they turn loops that \
         keep emitting or keep drawing into deterministic failures). Non-trivial = degenerate configuration (unsafe, rate outside [0,1], \
         min >= max, fewer than 64 entropy bytes, or >= 5000 opcodes).",
    );
    if std::env::var("C09_ONLY_TOWERS").is_ok() {
        // development aid: part (4) alone
        crate::props::towers::run(ctx, &mut out);
        return out;
    }
    run_c09_child(ctx, &mut out, &util::self_exe(), false, "");
    // the same generated configurations (without the exhaustive part) in a build WITHOUT debug assertions and
    // overflow checks: arithmetic that wraps instead of panicking must not turn into a runaway or a crash
    if !out.failed() && out.inconclusive.is_none() {
        match crate::props::outputs::build_plain_harness(ctx) {
            Err(e) => out.inconclusive = Some(e),
            Ok(plain) => run_c09_child(ctx, &mut out, std::path::Path::new(&plain), true, "[build without debug assertions] "),
        }
    }
    dev_profile_probe(ctx, &mut out);
    crate::props::towers::run(ctx, &mut out);
    out.assumptions = vec![
        "everything except the dev-profile probe runs an optimised build (opt-level 3, debug assertions on); all generation threads have 2 MiB stacks".into(),
        "a loop that spins without emitting is only caught by the watchdog and then reported as inconclusive (exit 2), never as a violation".into(),
    ];
    out
}

pub fn replay_c09(ctx: &Ctx, c: &GenCase) -> Result<(), Fail> {
    match c09_one_in_child(ctx, c, Duration::from_secs(900)) {
        Err(e) => Err(Fail::new("harness:watchdog", e)),
        Ok(Some(desc)) => {
            let mut st = Stats::default();
            ctx.fail(&mut st, Fail::new("process-death", format!("generation killed the process ({}) for {}", desc, c.brief())))
        }
        Ok(None) => {
            let mut st = Stats::default();
            check_c09(ctx, c, &mut st)
        }
    }
}

/// `pfverif c09-one <file>`: exit 0 ok, 1 judged failure, (signal) if the case kills the process
pub fn c09_one(ctx: &Ctx, path: &str) -> i32 {
    let Ok(b) = std::fs::read(path) else { return 2 };
    let Ok(c) = serde_json::from_slice::<GenCase>(&b) else { return 2 };
    let mut st = Stats::default();
    let mut strict = ctx.clone();
    strict.strict = true;
    let r = check_c09(&strict, &c, &mut st);
    // the breadcrumb of this (surviving) process is not needed
    let _ = std::fs::remove_file(format!("{}/work/c09-cur-{}-{:?}.json", ctx.verif_dir, std::process::id(), std::thread::current().id()));
    match r {
        Ok(()) => 0,
        Err(_) => 1,
    }
}

// ------------------------------------------------------------------------------------------
// C09, unoptimised build: the profile `cargo test` / `cargo run` users get by default
// ------------------------------------------------------------------------------------------

/// build the harness (and with it the repository crate) in cargo's `dev` profile (opt-level 0)
pub fn build_dev_harness(ctx: &Ctx) -> Result<String, String> {
    let out = Command::new("cargo")
        .args(["build", "--offline", "--bin", "pfverif"])
        .current_dir(format!("{}/harness", ctx.verif_dir))
        .env("CARGO_NET_OFFLINE", "true")
        .output()
        .map_err(|e| format!("cargo: {}", e))?;
    if !out.status.success() {
        return Err(format!("building the dev-profile harness failed: {}", String::from_utf8_lossy(&out.stderr).lines().rev().take(10).collect::<Vec<_>>().join(" | ")));
    }
    Ok(format!("{}/target/harness/debug/pfverif", ctx.verif_dir))
}

/// run one case in a fresh process of the dev-profile binary; Ok(None) = fine
pub fn dev_one(ctx: &Ctx, exe: &str, case: &GenCase, idx: usize, limit: Duration) -> Result<Option<String>, String> {
    let path = format!("{}/work/c09-dev-{}-{}.json", ctx.verif_dir, std::process::id(), idx);
    std::fs::write(&path, serde_json::to_vec(case).unwrap()).map_err(|e| e.to_string())?;
    let mut ch = Command::new(exe)
        .args(["c09-one", &path])
        .env("VERIF_DIR", &ctx.verif_dir)
        .stdout(Stdio::null())
        .stderr(Stdio::null())
        .spawn()
        .map_err(|e| e.to_string())?;
    let st = wait_with_timeout(&mut ch, limit);
    let _ = std::fs::remove_file(&path);
    match st {
        None => Err("watchdog: the case did not finish in time".into()),
        Some(s) if s.success() => Ok(None),
        Some(s) if s.code() == Some(1) => Ok(Some("the generation failed (Err / panic / empty output)".into())),
        Some(s) => Ok(Some(format!("the process died: {}", s))),
    }
}

fn dev_cases(ctx: &Ctx) -> Vec<GenCase> {
    // long programs from exhausted / constant fuzzer bytes (deepest nesting) and from a PRNG seed
    let sizes: &[usize] = if ctx.thorough() { &[14_000, 20_500, 30_000] } else { &[14_000] };
    let mut v = vec![];
    for p in 0u8..=5 {
        for &n in sizes {
            let mut c = GenCase::default_for(p, ctx.seed);
            c.min_opcodes = n;
            c.max_opcodes = n;
            c.entropy = if p % 3 == 2 { Entropy::Seed(ctx.seed ^ 77) } else { Entropy::Bytes(if p % 3 == 0 { vec![] } else { vec![0xff; 48] }) };
            v.push(c);
        }
    }
    v
}

/// C09 on an unoptimised build
pub fn dev_profile_probe(ctx: &Ctx, out: &mut Outcome) {
    if out.failed() || out.inconclusive.is_some() {
        return;
    }
    let exe = match build_dev_harness(ctx) {
        Ok(e) => e,
        Err(e) => {
            out.inconclusive = Some(e);
            return;
        }
    };
    let items: Vec<(usize, GenCase)> = dev_cases(ctx).into_iter().enumerate().collect();
    let (st, found) = run_enum(items, |(i, c), st| {
        st.label("dev-profile (opt-level 0) generation of a very long program in its own process");
        match dev_one(ctx, &exe, c, *i, Duration::from_secs(1800)) {
            Err(e) => Err(Fail::new("harness:watchdog", e)),
            Ok(None) => {
                st.nontrivial(util::digest_str(&format!("dev{}", c.brief())));
                Ok(())
            }
            Ok(Some(desc)) => ctx.fail(
                st,
                Fail::new("process-death:dev-profile", format!("unoptimised build (cargo dev profile, 2 MiB thread stack): {} for {}", desc, c.brief())),
            ),
        }
    });
    out.stats.merge(st);
    if let Some(((_, c), f)) = found {
        if f.sig.starts_with("harness:") {
            out.inconclusive = Some(f.msg);
        } else {
            out.violation = Some(Violation { fail: f, case: json!({"dev_profile": true, "case": c}) });
        }
    }
}

pub fn replay_c09_dev(ctx: &Ctx, c: &GenCase) -> Result<(), Fail> {
    let exe = build_dev_harness(ctx).map_err(|e| Fail::new("harness:build", e))?;
    match dev_one(ctx, &exe, c, 999_999, Duration::from_secs(1800)) {
        Err(e) => Err(Fail::new("harness:watchdog", e)),
        Ok(None) => Ok(()),
        Ok(Some(desc)) => {
            let mut st = Stats::default();
            ctx.fail(&mut st, Fail::new("process-death:dev-profile", format!("unoptimised build (cargo dev profile, 2 MiB thread stack): {} for {}", desc, c.brief())))
        }
    }
}

// ------------------------------------------------------------------------------------------
// C07
// ------------------------------------------------------------------------------------------

/// `pfverif digest-cases <file>`: print one digest per case
pub fn digest_cases(path: &str, start: usize) -> i32 {
    let Ok(b) = std::fs::read(path) else { return 2 };
    let Ok(cases) = serde_json::from_slice::<Vec<GenCase>>(&b) else { return 2 };
    // the list is walked from `start` (wrapping around) - which generator is the first of its protocol, of its
    // configuration, of the process differs from process to process - and printed in list order
    let n = cases.len();
    let mut digests: Vec<String> = vec![String::new(); n];
    for k in 0..n {
        let i = (start + k) % n.max(1);
        digests[i] = match cases[i].run() {
            Ok(o) => util::digest128(&o),
            Err(_) => "ERR".to_string(),
        };
    }
    print!("{}", digests.iter().map(|d| format!("{}\n", d)).collect::<String>());
    0
}

/// C07 (d): one seeded batch invocation under four rayon worker counts; directories must be equal
pub fn check_batch_workers(ctx: &Ctx, cli: &str, i: usize, c: &frontends::CliCase, st: &mut Stats) -> Result<(), Fail> {
    let mut first: Option<(u8, Vec<(String, Vec<u8>)>)> = None;
    for t in [1u8, 2, 5, 16] {
        let mut c2 = c.clone();
        c2.rayon_threads = t;
        let dir = format!("{}/work/c07-{}-{}-{}", ctx.verif_dir, std::process::id(), i, t);
        let ro = frontends::invoke(ctx, &cli, &c2, &dir);
        let mut files: Vec<(String, Vec<u8>)> = std::fs::read_dir(format!("{}/{}", dir, frontends::OUT_DIR))
            .map(|d| d.filter_map(|e| e.ok()).map(|e| (e.file_name().to_string_lossy().to_string(), std::fs::read(e.path()).unwrap_or_default())).collect())
            .unwrap_or_default();
        files.sort();
        let _ = std::fs::remove_dir_all(&dir);
        match ro {
            Err(e) => return Err(Fail::new("harness:invoke", e)),
            Ok(r) if r.status != Some(0) => {
                st.label("(d) batch run failed (skipped; C13 decides)");
                return Ok(());
            }
            Ok(_) => {}
        }
        match &first {
            None => first = Some((t, files)),
            Some((t0, f0)) => {
                if *f0 != files {
                    return ctx.fail(
                        st,
                        Fail::new(
                            "nondeterministic:batch-worker-count",
                            format!("{}: the batch directory written with RAYON_NUM_THREADS={} differs from the one written with {}", c.brief(), t, t0),
                        ),
                    );
                }
            }
        }
    }
    st.label("(d) batch directory identical for RAYON_NUM_THREADS in {1,2,5,16}");
    Ok(())
}

pub fn run_c07(ctx: &Ctx) -> Outcome {
    let mut out = Outcome::new(
        "Cases x execution contexts. (a) every generated GenCase (all configurations, both entropy modes) is run on two fresh instances in \
         one thread and on a third, brand-new thread (fresh HashMap hash keys, different addresses); (b) a fixed list of cases is run \
         concurrently by 16 threads at once, every case on every thread; (c) the same list is run by three freshly spawned processes (new \
         ASLR layout and hash seeds; different working directories - the harness's, the checkout root, / - and environments); (d) CLI batch directories for RAYON_NUM_THREADS in {1,2,5,16}. Oracle: all outputs / digests for a case \
         are equal (and equal to the library's for batch files). Non-trivial = output with >= 2 memo keys and >= 1 GET (where hash-map order \
         could leak), or an active mutator.",
    );
    let mut p = Profile::full();
    p.rate = RateMode::InRange;
    p.size = SizeMode::WithLarge;
    // (a)
    let r = run_prop(ctx, 1, ctx.n(20_000, 400_000), || case::gencase(&p), |c: &GenCase, st: &mut Stats| lib_level::check_c07_inproc(ctx, c, st));
    out.absorb(r);
    if out.failed() {
        return out;
    }
    // (a') a few very long generations (seconds each): anything that depends on elapsed time, load or
    // scheduling has room to show here
    {
        let n = if ctx.thorough() { 40_000 } else { 20_000 };
        let items: Vec<GenCase> = (0u8..=5)
            .map(|p| {
                let mut c = GenCase::default_for(p, ctx.seed ^ (p as u64) << 20);
                c.min_opcodes = n;
                c.max_opcodes = n;
                if p % 2 == 1 {
                    c.entropy = Entropy::Bytes((0..4096u32).map(|i| (i.wrapping_mul(2654435761) >> 13) as u8).collect());
                }
                c
            })
            .collect();
        let (st, found) = run_enum(items, |c, st| {
            st.label("(a') very long generation repeated on two threads");
            lib_level::check_c07_inproc(ctx, c, st)
        });
        out.stats.merge(st);
        if let Some((c, f)) = found {
            out.violation = Some(Violation { fail: f, case: serde_json::to_value(&c).unwrap() });
            return out;
        }
    }
    // (b) + (c): fixed list
    let n_list = ctx.n(2000, 40_000) as usize;
    let list: Vec<GenCase> = materialise(&case::gencase(&p), ctx.seed, 71, n_list);
    let reference: Vec<String> = list.iter().map(|c| c.run().map(|o| util::digest128(&o)).unwrap_or_else(|_| "ERR".into())).collect();
    // (b) 16 threads at once, each runs the whole list in a thread-specific order
    let mismatches: Vec<(usize, usize)> = std::thread::scope(|sc| {
        let hs: Vec<_> = (0..THREADS)
            .map(|w| {
                let list = &list;
                let reference = &reference;
                std::thread::Builder::new()
                    .stack_size(64 << 20)
                    .spawn_scoped(sc, move || {
                        let n = list.len();
                        let mut bad = vec![];
                        for k in 0..n {
                            // different interleaving per thread: rotate and stride
                            let i = (k * (2 * w + 1) + w * 97) % n;
                            let d = list[i].run().map(|o| util::digest128(&o)).unwrap_or_else(|_| "ERR".into());
                            if d != reference[i] {
                                bad.push((w, i));
                            }
                        }
                        bad
                    })
                    .unwrap()
            })
            .collect();
        hs.into_iter().flat_map(|h| h.join().unwrap()).collect()
    });
    out.stats.evaluations += (THREADS * list.len()) as u64;
    out.stats.add("(b) generations under 16-thread concurrency", (THREADS * list.len()) as u64);
    if let Some((w, i)) = mismatches.first() {
        let f = Fail::new("nondeterministic:concurrent-threads", format!("case #{} gave a different digest on concurrent thread {} than on the main thread", i, w));
        let mut st = Stats::default();
        if ctx.fail(&mut st, f.clone()).is_err() {
            out.violation = Some(Violation { fail: f, case: serde_json::to_value(&list[*i]).unwrap() });
            return out;
        }
    }
    // (c) fresh processes
    let path = format!("{}/work/c07-cases-{}.json", ctx.verif_dir, std::process::id());
    if std::fs::write(&path, serde_json::to_vec(&list).unwrap()).is_err() {
        out.inconclusive = Some("cannot write case list".into());
        return out;
    }
    let exe = util::self_exe();
    // the three processes also differ in everything else a process inherits: the working directory (this
    // one's, the root of the checkout, "/") and the environment (inherited, inherited, a cleared one with
    // unusual locale / time zone / home settings)
    let children: Vec<_> = (0..3)
        .map(|k| {
            let mut cmd = Command::new(&exe);
            cmd.args(["digest-cases", &path, &(k * list.len() / 3 + k).to_string()]).stdout(Stdio::piped()).stderr(Stdio::null());
            match k {
                0 => {}
                1 => {
                    cmd.current_dir(&ctx.repo_dir);
                }
                _ => {
                    cmd.current_dir("/").env_clear().envs([
                        ("HOME", "/nonexistent"),
                        ("LANG", "tr_TR.UTF-8"),
                        ("LC_ALL", "tr_TR.UTF-8"),
                        ("TZ", "Pacific/Kiritimati"),
                        ("RAYON_NUM_THREADS", "3"),
                        ("RUST_BACKTRACE", "full"),
                        ("PYTHONHASHSEED", "12345"),
                        ("TMPDIR", "/nonexistent"),
                    ]);
                }
            }
            cmd.spawn()
        })
        .collect();
    for (k, ch) in children.into_iter().enumerate() {
        let Ok(ch) = ch else {
            out.inconclusive = Some("cannot spawn digest child".into());
            let _ = std::fs::remove_file(&path);
            return out;
        };
        let o = ch.wait_with_output();
        let Ok(o) = o else {
            out.inconclusive = Some("digest child failed".into());
            let _ = std::fs::remove_file(&path);
            return out;
        };
        let txt = String::from_utf8_lossy(&o.stdout);
        let got: Vec<&str> = txt.lines().collect();
        if got.len() != reference.len() {
            out.inconclusive = Some(format!("digest child {} returned {} lines for {} cases (status {})", k, got.len(), reference.len(), o.status));
            let _ = std::fs::remove_file(&path);
            return out;
        }
        out.stats.evaluations += got.len() as u64;
        for (i, (g, r)) in got.iter().zip(reference.iter()).enumerate() {
            if g != r {
                let f = Fail::new("nondeterministic:other-process", format!("case #{}: process {} computed digest {} but this process {}", i, k, g, r));
                let mut st = Stats::default();
                if ctx.fail(&mut st, f.clone()).is_err() {
                    out.violation = Some(Violation { fail: f, case: serde_json::to_value(&list[i]).unwrap() });
                    let _ = std::fs::remove_file(&path);
                    return out;
                }
            }
        }
    }
    let _ = std::fs::remove_file(&path);
    out.stats.add("(c) generations in freshly spawned processes", (3 * list.len()) as u64);
    // (d) CLI batch directories across worker counts: the directories must be identical to each other
    // (whether they equal the library's bytes is C13's question, not this property's)
    match frontends::build_cli(ctx) {
        Err(e) => out.inconclusive = Some(e),
        Ok(cli) => {
            let n = ctx.n(24, 300) as usize;
            let base: Vec<frontends::CliCase> = materialise(&frontends::cli_strategy(false), ctx.seed, 72, n * 3)
                .into_iter()
                .filter(|c| c.seed.is_some() && matches!(c.mode, frontends::Mode::Batch { fault_at: None, samples } if samples >= 2))
                .take(n)
                .enumerate()
                .map(|(k, mut c)| {
                    // rayon cuts a batch into pieces whose boundaries depend on the worker count; directories
                    // of up to ~100 files have pieces of more than one file for the smaller counts
                    if let frontends::Mode::Batch { samples, .. } = &mut c.mode {
                        if k % 2 == 1 {
                            *samples = 13 + (*samples * 17 + k * 7) % 90;
                        }
                    }
                    c
                })
                .collect();
            let mut base = base;
            // ... and a few batches of very long pickles (anything that scales a knob by the number of workers or
            // of samples needs large values to show)
            let heavy: &[usize] = if ctx.thorough() { &[10_000, 20_000, 40_000] } else { &[10_000] };
            for (k, &n_ops) in heavy.iter().enumerate() {
                if let Some(mut c) = base.first().cloned() {
                    c.min = Some(n_ops);
                    c.max = Some(n_ops + 100);
                    c.protocol = Some(((ctx.seed as usize + k) % 6) as u8);
                    c.mutators = frontends::MutSpec::None;
                    c.rate = None;
                    c.preexisting = false;
                    c.mode = frontends::Mode::Batch { samples: 17 + k, fault_at: None };
                    base.push(c);
                }
            }
            let items: Vec<(usize, frontends::CliCase)> = base.into_iter().enumerate().collect();
            let (st, found) = run_enum(items, |(i, c), st| check_batch_workers(ctx, &cli, *i, c, st));
            let mut st2 = st;
            st2.samples.clear();
            st2.nontrivial.clear();
            out.stats.merge(st2);
            if let Some(((_, c), f)) = found {
                if f.sig.starts_with("harness:") {
                    out.inconclusive = Some(f.msg);
                } else {
                    out.violation = Some(Violation { fail: f, case: json!({"cli_case": c}) });
                }
                return out;
            }
        }
    }
    out.assumptions = vec![
        "thread interleavings are sampled by stress, not enumerated: generator instances share no mutable state (only the OnceLock stdlib table), so there is no schedule for a harness to own".into(),
    ];
    out
}
