pub mod c15;
pub mod c17;
pub mod direct;
pub mod frontends;
pub mod lib_level;
pub mod outputs;
pub mod procs;
pub mod tree;
