pub mod c17;
pub mod outputs;
pub mod tree;
