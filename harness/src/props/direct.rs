//! Direct calls of the public `Mutator` trait methods and of the `EntropySource` adapters on
//! harness-built entropy sources: C15 (rate extremes), C16 (documented transformations),
//! C18 (adapter ranges / fallbacks).

use crate::case::{panic_message, MutK, ALL_MUTK};
use crate::refpvm::lexer::{self, ArgVal};
use crate::refpvm::optable as t;
use crate::runner::{run_enum, run_prop, Ctx, Fail, Outcome, Stats};
use crate::util;
use arbitrary::Unstructured;
use pickle_fuzzer::verif::{EntropySource, GenerationSource};
use pickle_fuzzer::{EmissionSnapshot, Mutator};
use proptest::prelude::*;
use rand::SeedableRng;
use rand_chacha::ChaCha8Rng;
use serde::{Deserialize, Serialize};
use serde_json::json;
use std::panic::{catch_unwind, AssertUnwindSafe};

// ------------------------------------------------------------------------------------------
// entropy sources
// ------------------------------------------------------------------------------------------

#[derive(Clone, Debug, PartialEq, Eq, Hash, Serialize, Deserialize)]
pub enum Src {
    Rng(u64),
    #[serde(with = "crate::case::hexbytes")]
    Bytes(Vec<u8>),
}

impl Src {
    pub fn with<R>(&self, f: impl FnOnce(&mut GenerationSource) -> R) -> R {
        match self {
            Src::Rng(s) => {
                let mut rng = ChaCha8Rng::seed_from_u64(*s);
                let mut g = GenerationSource::Rand(&mut rng);
                f(&mut g)
            }
            Src::Bytes(b) => {
                let mut u = Unstructured::new(b);
                let mut g = GenerationSource::Arbitrary(&mut u);
                f(&mut g)
            }
        }
    }
    pub fn exhausted(&self) -> bool {
        matches!(self, Src::Bytes(b) if b.len() < 8)
    }
    /// the first f64 this source yields
    pub fn first_f64(&self) -> f64 {
        self.with(|g| g.gen_f64())
    }
    pub fn brief(&self) -> String {
        match self {
            Src::Rng(s) => format!("rng({})", s),
            Src::Bytes(b) => format!("bytes({})", util::hex(b)),
        }
    }
}

pub const SPECIAL_F64: [f64; 14] = [
    0.0,
    -0.0,
    1.0,
    -1.0,
    0.5,
    f64::NAN,
    f64::INFINITY,
    f64::NEG_INFINITY,
    1e300,
    -1e300,
    f64::MIN_POSITIVE,
    5e-324,
    2.0,
    0.999_999_999_999_999_9,
];

pub fn src_strategy() -> BoxedStrategy<Src> {
    prop_oneof![
        3 => any::<u64>().prop_map(Src::Rng),
        1 => Just(Src::Bytes(vec![])),
        3 => proptest::collection::vec(any::<u8>(), 1..8).prop_map(Src::Bytes),
        4 => proptest::collection::vec(any::<u8>(), 8..40).prop_map(Src::Bytes),
        // first f64 drawn is a special pattern, then arbitrary tail
        4 => (proptest::sample::select(SPECIAL_F64.to_vec()), proptest::collection::vec(any::<u8>(), 0..24)).prop_map(|(f, tail)| {
            let mut b = f.to_bits().to_le_bytes().to_vec();
            b.extend(tail);
            Src::Bytes(b)
        }),
        1 => (any::<u8>(), 0usize..40).prop_map(|(x, n)| Src::Bytes(vec![x; n])),
    ]
    .boxed()
}

// ------------------------------------------------------------------------------------------
// one direct mutator call
// ------------------------------------------------------------------------------------------

#[derive(Clone, Debug, PartialEq, Serialize, Deserialize)]
pub enum Val {
    Int(i32),
    Long(i64),
    /// f64 by bits
    Float(u64),
    Str(String),
    #[serde(with = "crate::case::hexbytes")]
    Bytes(Vec<u8>),
    Memo(usize),
    /// post_process on `prefix ++ emission`
    Post {
        #[serde(with = "crate::case::hexbytes")]
        prefix: Vec<u8>,
        #[serde(with = "crate::case::hexbytes")]
        emission: Vec<u8>,
        /// further post_process calls on the same buffer with the same snapshot (what the dispatch loop does
        /// when the list names the mutator more than once)
        #[serde(default)]
        again: u8,
    },
}

impl Val {
    pub fn kind(&self) -> &'static str {
        match self {
            Val::Int(_) => "int",
            Val::Long(_) => "long",
            Val::Float(_) => "float",
            Val::Str(_) => "string",
            Val::Bytes(_) => "bytes",
            Val::Memo(_) => "memo",
            Val::Post { .. } => "post",
        }
    }
}

#[derive(Clone, Debug, PartialEq, Serialize, Deserialize)]
pub struct Call {
    pub mutator: MutK,
    pub unsafe_mode: bool,
    pub val: Val,
    /// rate by bits
    pub rate_bits: u64,
    pub src: Src,
}

impl Call {
    pub fn rate(&self) -> f64 {
        f64::from_bits(self.rate_bits)
    }
    pub fn brief(&self) -> String {
        format!("{:?}(unsafe={}).{} {:?} rate={} {}", self.mutator, self.unsafe_mode, self.val.kind(), self.val, self.rate(), self.src.brief())
    }
}

#[derive(Clone, Debug, PartialEq)]
pub enum Res {
    None,
    Int(i32),
    Long(i64),
    Float(u64),
    Str(String),
    Bytes(Vec<u8>),
    Memo(usize),
    Post { ret: bool, output: Vec<u8> },
}

pub fn do_call(c: &Call) -> Result<Res, String> {
    let m: Box<dyn Mutator> = c.mutator.kind().create(c.unsafe_mode);
    let rate = c.rate();
    let r = catch_unwind(AssertUnwindSafe(|| {
        c.src.with(|g| match &c.val {
            Val::Int(v) => m.mutate_int(*v, g, rate).map(Res::Int).unwrap_or(Res::None),
            Val::Long(v) => m.mutate_long(*v, g, rate).map(Res::Long).unwrap_or(Res::None),
            Val::Float(b) => m.mutate_float(f64::from_bits(*b), g, rate).map(|x| Res::Float(x.to_bits())).unwrap_or(Res::None),
            Val::Str(s) => m.mutate_string(s.clone(), g, rate).map(Res::Str).unwrap_or(Res::None),
            Val::Bytes(b) => m.mutate_bytes(b.clone(), g, rate).map(Res::Bytes).unwrap_or(Res::None),
            Val::Memo(i) => m.mutate_memo_index(*i, g, rate).map(Res::Memo).unwrap_or(Res::None),
            Val::Post { prefix, emission, again } => {
                let mut output = prefix.clone();
                output.extend_from_slice(emission);
                let snap = EmissionSnapshot {
                    stack_depth: 0,
                    output_len: prefix.len(),
                    memo_size: 0,
                    stack_delta: Vec::new(),
                    output_delta: emission.clone(),
                    memo_delta: Vec::new(),
                };
                let mut ret = m.post_process(&snap, &mut output, g, rate);
                for _ in 0..*again {
                    ret |= m.post_process(&snap, &mut output, g, rate);
                }
                Res::Post { ret, output }
            }
        })
    }));
    r.map_err(panic_message)
}

/// Which value kinds a mutator is documented to act on (module docs of src/mutators/*.rs and the
/// statement of C16).
pub fn applicable(m: MutK, unsafe_mode: bool, v: &Val) -> bool {
    match (m, v) {
        (MutK::Bitflip, Val::Int(_) | Val::Long(_)) => true,
        (MutK::Boundary, Val::Int(_) | Val::Long(_) | Val::Float(_)) => true,
        (MutK::Offbyone, Val::Int(_) | Val::Long(_) | Val::Memo(_)) => true,
        (MutK::Stringlen, Val::Str(_) | Val::Bytes(_)) => true,
        (MutK::Character, Val::Str(s)) => !s.is_empty(),
        (MutK::Character, Val::Bytes(b)) => !b.is_empty(),
        (MutK::Memoindex, Val::Memo(_)) => true,
        (MutK::Typeconfusion, Val::Post { emission, .. }) => unsafe_mode && matches!(pushed_kind(emission), Pushed::One(_) | Pushed::Ambiguous),
        _ => false,
    }
}

// ------------------------------------------------------------------------------------------
// type-confusion helpers: what value kind does an emission push?
// ------------------------------------------------------------------------------------------

#[derive(Clone, Copy, Debug, PartialEq, Eq)]
pub enum VKind {
    Int,
    Float,
    Str,
    Bytes,
    List,
    Dict,
    Tuple,
    None,
    Bool,
}

#[derive(Clone, Copy, Debug, PartialEq, Eq)]
pub enum Pushed {
    /// pushes a value of exactly this one of the nine kinds
    One(VKind),
    /// pushes a value whose kind among the nine is open (STRING family: bytes or str)
    Ambiguous,
    /// value-pushing, but not one of the nine documented kinds: either behaviour is accepted
    Lenient,
    /// does not push a value of the nine kinds
    No,
}

pub fn pushed_kind(emission: &[u8]) -> Pushed {
    let Some(&c) = emission.first() else { return Pushed::No };
    match c {
        t::INT | t::BININT | t::BININT1 | t::BININT2 | t::LONG | t::LONG1 | t::LONG4 => Pushed::One(VKind::Int),
        t::FLOAT | t::BINFLOAT => Pushed::One(VKind::Float),
        t::UNICODE | t::SHORT_BINUNICODE | t::BINUNICODE | t::BINUNICODE8 => Pushed::One(VKind::Str),
        t::STRING | t::BINSTRING | t::SHORT_BINSTRING => Pushed::Ambiguous,
        t::BINBYTES | t::SHORT_BINBYTES | t::BINBYTES8 => Pushed::One(VKind::Bytes),
        t::EMPTY_LIST | t::LIST => Pushed::One(VKind::List),
        t::EMPTY_TUPLE | t::TUPLE | t::TUPLE1 | t::TUPLE2 | t::TUPLE3 => Pushed::One(VKind::Tuple),
        t::EMPTY_DICT | t::DICT => Pushed::One(VKind::Dict),
        t::NONE => Pushed::One(VKind::None),
        t::NEWTRUE | t::NEWFALSE => Pushed::One(VKind::Bool),
        t::BYTEARRAY8 | t::EMPTY_SET | t::FROZENSET | t::NEXT_BUFFER => Pushed::Lenient,
        _ => Pushed::No,
    }
}

/// a well-formed emission for every opcode byte (unknown bytes: the byte alone)
pub fn wellformed_emission(code: u8, variant: u8) -> Vec<u8> {
    let mut v = vec![code];
    let Some(info) = t::lookup(code) else { return v };
    use crate::refpvm::optable::Arg::*;
    let payload: &[u8] = match variant % 3 {
        0 => b"",
        1 => b"abc",
        _ => b"hello world, hello pickle",
    };
    match info.arg {
        None => {}
        DecimalNlShort => v.extend_from_slice(if variant % 2 == 0 { b"7\n" } else { b"-12345\n" }),
        DecimalNlLong => v.extend_from_slice(b"123L\n"),
        StringNl => {
            v.push(b'\'');
            v.extend_from_slice(payload);
            v.extend_from_slice(b"'\n");
        }
        StringNlNoEscape => v.extend_from_slice(b"pid_1\n"),
        StringNlNoEscapePair => v.extend_from_slice(b"builtins\nobject\n"),
        UnicodeStringNl => {
            v.extend_from_slice(payload);
            v.push(b'\n');
        }
        FloatNl => v.extend_from_slice(b"1.5\n"),
        Int4 => v.extend_from_slice(&[1, 0, 0, 0]),
        UInt1 => v.push(3),
        UInt2 => v.extend_from_slice(&[3, 0]),
        UInt4 => v.extend_from_slice(&[3, 0, 0, 0]),
        UInt8 => v.extend_from_slice(&[3, 0, 0, 0, 0, 0, 0, 0]),
        Float8 => v.extend_from_slice(&1.5f64.to_be_bytes()),
        Long1 => v.extend_from_slice(&[2, 0x34, 0x12]),
        Long4 => v.extend_from_slice(&[2, 0, 0, 0, 0x34, 0x12]),
        String1 | Bytes1 | UnicodeString1 => {
            v.push(payload.len() as u8);
            v.extend_from_slice(payload);
        }
        String4 | Bytes4 | UnicodeString4 => {
            v.extend_from_slice(&(payload.len() as u32).to_le_bytes());
            v.extend_from_slice(payload);
        }
        Bytes8 | ByteArray8 | UnicodeString8 => {
            v.extend_from_slice(&(payload.len() as u64).to_le_bytes());
            v.extend_from_slice(payload);
        }
    }
    v
}

// ------------------------------------------------------------------------------------------
// C16 oracle
// ------------------------------------------------------------------------------------------

const F_BOUNDS: [f64; 7] = [0.0, -1.0, 1.0, f64::MAX, f64::MIN, f64::INFINITY, f64::NEG_INFINITY];

fn is_char_prefix(p: &str, s: &str) -> bool {
    let mut a = p.chars();
    let mut b = s.chars();
    loop {
        match (a.next(), b.next()) {
            (Some(x), Some(y)) if x == y => {}
            (None, _) => return true,
            _ => return false,
        }
    }
}

/// judge a fired mutation against the documented contract
pub fn c16_contract(c: &Call, r: &Res) -> Result<(), Fail> {
    let name = format!("{:?}", c.mutator).to_lowercase();
    let bad = |class: &str, msg: String| Err(Fail::new(format!("{}:{}:{}", name, c.val.kind(), class), format!("{} -> {:?}: {}", c.brief(), r, msg)));
    match (c.mutator, &c.val, r) {
        (_, _, Res::None) => Ok(()),
        (MutK::Bitflip, Val::Int(v), Res::Int(y)) => {
            if (v ^ y).count_ones() != 1 {
                return bad("not-one-bit", format!("{} bits differ", (v ^ y).count_ones()));
            }
            Ok(())
        }
        (MutK::Bitflip, Val::Long(v), Res::Long(y)) => {
            if (v ^ y).count_ones() != 1 {
                return bad("not-one-bit", format!("{} bits differ", (v ^ y).count_ones()));
            }
            Ok(())
        }
        (MutK::Boundary, Val::Int(_), Res::Int(y)) => {
            if ![0, -1, 1, i32::MAX, i32::MIN].contains(y) {
                return bad("not-a-boundary", format!("{}", y));
            }
            Ok(())
        }
        (MutK::Boundary, Val::Long(_), Res::Long(y)) => {
            if ![0, -1, 1, i64::MAX, i64::MIN].contains(y) {
                return bad("not-a-boundary", format!("{}", y));
            }
            Ok(())
        }
        (MutK::Boundary, Val::Float(_), Res::Float(b)) => {
            let y = f64::from_bits(*b);
            if !(y.is_nan() || F_BOUNDS.iter().any(|k| k.to_bits() == *b)) {
                return bad("not-a-boundary", format!("{}", y));
            }
            Ok(())
        }
        (MutK::Offbyone, Val::Int(v), Res::Int(y)) => {
            if *y != v.wrapping_add(1) && *y != v.wrapping_sub(1) {
                return bad("not-off-by-one", format!("{} -> {}", v, y));
            }
            Ok(())
        }
        (MutK::Offbyone, Val::Long(v), Res::Long(y)) => {
            if *y != v.wrapping_add(1) && *y != v.wrapping_sub(1) {
                return bad("not-off-by-one", format!("{} -> {}", v, y));
            }
            Ok(())
        }
        (MutK::Offbyone, Val::Memo(v), Res::Memo(y)) => {
            if *y != v.saturating_add(1) && *y != v.saturating_sub(1) {
                return bad("not-off-by-one", format!("{} -> {}", v, y));
            }
            Ok(())
        }
        (MutK::Stringlen, Val::Str(v), Res::Str(y)) => {
            let nv = v.chars().count();
            let ny = y.chars().count();
            let prefix = is_char_prefix(y, v);
            let extended = is_char_prefix(v, y) && ny > nv && ny - nv <= 9;
            let doubled = *y == format!("{}{}", v, v);
            if !(prefix || extended || doubled) {
                return bad("not-prefix-extend-double", format!("{} chars -> {} chars", nv, ny));
            }
            Ok(())
        }
        (MutK::Stringlen, Val::Bytes(v), Res::Bytes(y)) => {
            let prefix = v.starts_with(y);
            let extended = y.starts_with(v) && y.len() > v.len() && y.len() - v.len() <= 9;
            let doubled = y.len() == 2 * v.len() && y[..v.len()] == v[..] && y[v.len()..] == v[..];
            if !(prefix || extended || doubled) {
                return bad("not-prefix-extend-double", format!("{} bytes -> {} bytes", v.len(), y.len()));
            }
            Ok(())
        }
        (MutK::Character, Val::Str(v), Res::Str(y)) => {
            let a: Vec<char> = v.chars().collect();
            let b: Vec<char> = y.chars().collect();
            if a.len() != b.len() {
                return bad("length-changed", format!("{} chars -> {} chars", a.len(), b.len()));
            }
            let diff: Vec<usize> = (0..a.len()).filter(|i| a[*i] != b[*i]).collect();
            if diff.len() > 1 {
                return bad("more-than-one-position", format!("{} positions differ", diff.len()));
            }
            if let Some(&i) = diff.first() {
                if !('!'..='~').contains(&b[i]) {
                    return bad("not-printable", format!("new char {:?}", b[i]));
                }
            }
            Ok(())
        }
        (MutK::Character, Val::Bytes(v), Res::Bytes(y)) => {
            if v.len() != y.len() {
                return bad("length-changed", format!("{} -> {}", v.len(), y.len()));
            }
            let d = v.iter().zip(y.iter()).filter(|(a, b)| a != b).count();
            if d > 1 {
                return bad("more-than-one-position", format!("{} positions differ", d));
            }
            Ok(())
        }
        (MutK::Memoindex, Val::Memo(v), Res::Memo(y)) => {
            if c.unsafe_mode {
                if *y >= 1000 {
                    return bad("unsafe-range", format!("{}", y));
                }
            } else if y.abs_diff(*v) > 1 {
                return bad("safe-delta", format!("{} -> {}", v, y));
            }
            Ok(())
        }
        (MutK::Typeconfusion, Val::Post { prefix, emission, .. }, Res::Post { ret, output }) => {
            if output.len() < prefix.len() || output[..prefix.len()] != prefix[..] {
                return bad("prefix-touched", "bytes before the emission were modified".into());
            }
            let new = &output[prefix.len()..];
            let orig = pushed_kind(emission);
            if !c.unsafe_mode {
                if *ret || new != &emission[..] {
                    return bad("safe-mode-acted", "type confusion acted in safe mode".into());
                }
                return Ok(());
            }
            if !*ret {
                if new != &emission[..] {
                    return bad("changed-but-false", "output changed although false was returned".into());
                }
                return Ok(());
            }
            // fired
            if orig == Pushed::No {
                return bad("non-value-opcode-replaced", format!("emission {} is not value-pushing", t::name_of(emission[0])));
            }
            match lexer::lex_one(new, 0) {
                Ok(op) if op.len == new.len() => {
                    let np = pushed_kind(new);
                    let Pushed::One(nk) = np else {
                        return bad("replacement-not-value", format!("replacement {} is not one of the nine value kinds", op.info.name));
                    };
                    if let Pushed::One(ok) = orig {
                        if ok == nk {
                            return bad("same-kind", format!("{} replaced by {} of the same kind", t::name_of(emission[0]), op.info.name));
                        }
                    }
                    if matches!(op.arg, ArgVal::BigInt) {
                        return bad("replacement-arg", "unexpected argument".into());
                    }
                    Ok(())
                }
                Ok(op) => bad("replacement-not-one-opcode", format!("replacement is {} bytes but its first opcode {} spans {}", new.len(), op.info.name, op.len)),
                Err(e) => bad("replacement-undecodable", e.to_string()),
            }
        }
        // post_process of every other mutator is documented to do nothing
        (_, Val::Post { prefix, emission, .. }, Res::Post { ret, output }) => {
            let mut o = prefix.clone();
            o.extend_from_slice(emission);
            if *ret || *output != o {
                return bad("post-process-acted", "a value mutator rewrote emitted bytes".into());
            }
            Ok(())
        }
        // a method the mutator is not documented to implement returned something
        (_, _, other) => bad("unexpected-result", format!("{:?}", other)),
    }
}

// ------------------------------------------------------------------------------------------
// strategies for calls
// ------------------------------------------------------------------------------------------

fn int_strategy() -> BoxedStrategy<i32> {
    prop_oneof![
        2 => proptest::sample::select(vec![0, 1, -1, 2, -2, i32::MAX, i32::MIN, i32::MAX - 1, i32::MIN + 1, 255, 256, 65535, 65536, 0x7fff_ffff, 0x4000_0000]),
        1 => any::<i32>(),
    ]
    .boxed()
}

fn long_strategy() -> BoxedStrategy<i64> {
    prop_oneof![
        2 => proptest::sample::select(vec![0i64, 1, -1, i64::MAX, i64::MIN, i64::MAX - 1, i64::MIN + 1, 1 << 31, -(1 << 31), 1 << 32, 1 << 62]),
        1 => any::<i64>(),
    ]
    .boxed()
}

fn string_strategy() -> BoxedStrategy<String> {
    prop_oneof![
        1 => Just(String::new()),
        3 => "[ -~]{1,64}",
        2 => "\\PC{1,24}",
        1 => "[a-zé✓𝄞\\\\'\"\n]{1,32}",
        // long strings of wide characters: few items, many bytes (128..256 bytes in at most 64 characters)
        1 => "[𝄞😀𐍈]{30,64}",
        1 => "[✓€あ]{40,64}",
        1 => "[éßж]{60,64}",
    ]
    .boxed()
}

fn bytes_strategy() -> BoxedStrategy<Vec<u8>> {
    prop_oneof![1 => Just(Vec::new()), 4 => proptest::collection::vec(any::<u8>(), 1..=64)].boxed()
}

fn memo_strategy() -> BoxedStrategy<usize> {
    prop_oneof![
        2 => proptest::sample::select(vec![0usize, 1, 2, 254, 255, 256, 257, 998, 999, 1000, 1001, u32::MAX as usize, usize::MAX - 1, usize::MAX]),
        1 => any::<usize>(),
        1 => 0usize..2000,
    ]
    .boxed()
}

fn post_strategy() -> BoxedStrategy<Val> {
    (any::<u8>(), any::<u8>(), proptest::collection::vec(any::<u8>(), 0..12), prop_oneof![3 => Just(0u8), 2 => Just(1u8), 1 => Just(2u8)])
        .prop_map(|(code, variant, prefix, again)| Val::Post { prefix, emission: wellformed_emission(code, variant), again })
        .boxed()
}

pub fn val_strategy() -> BoxedStrategy<Val> {
    prop_oneof![
        3 => int_strategy().prop_map(Val::Int),
        2 => long_strategy().prop_map(Val::Long),
        2 => prop_oneof![any::<u64>(), proptest::sample::select(SPECIAL_F64.iter().map(|f| f.to_bits()).collect::<Vec<_>>())].prop_map(Val::Float),
        3 => string_strategy().prop_map(Val::Str),
        3 => bytes_strategy().prop_map(Val::Bytes),
        3 => memo_strategy().prop_map(Val::Memo),
        3 => post_strategy(),
    ]
    .boxed()
}

pub fn call_strategy(rates: Vec<f64>) -> BoxedStrategy<Call> {
    (proptest::sample::select(ALL_MUTK.to_vec()), any::<bool>(), val_strategy(), proptest::sample::select(rates), src_strategy())
        .prop_map(|(mutator, unsafe_mode, val, rate, src)| Call { mutator, unsafe_mode, val, rate_bits: rate.to_bits(), src })
        .boxed()
}

fn nontrivial_call(c: &Call) -> bool {
    let boundary = match &c.val {
        Val::Int(v) => [0, -1, 1, i32::MAX, i32::MIN].contains(v),
        Val::Long(v) => [0, -1, 1, i64::MAX, i64::MIN].contains(v),
        Val::Float(b) => !f64::from_bits(*b).is_finite(),
        Val::Str(s) => s.is_empty() || !s.is_ascii(),
        Val::Bytes(b) => b.is_empty(),
        Val::Memo(i) => [0, 255, 256, usize::MAX].contains(i),
        Val::Post { emission, .. } => emission.len() > 1,
    };
    boundary || c.src.exhausted()
}

// ------------------------------------------------------------------------------------------
// C16
// ------------------------------------------------------------------------------------------

pub fn check_c16(ctx: &Ctx, c: &Call, st: &mut Stats) -> Result<(), Fail> {
    st.label(&format!("{:?}.{}", c.mutator, c.val.kind()));
    let r = match do_call(c) {
        Ok(r) => r,
        Err(p) => {
            return ctx.fail(st, Fail::new(format!("{}:{}:panic", format!("{:?}", c.mutator).to_lowercase(), c.val.kind()), format!("{} panicked: {}", c.brief(), p)));
        }
    };
    let fired = !matches!(r, Res::None | Res::Post { ret: false, .. });
    if let Err(f) = c16_contract(c, &r) {
        return ctx.fail(st, f);
    }
    if fired {
        st.label("fired");
        st.label(&format!("fired {:?}.{}", c.mutator, c.val.kind()));
        if nontrivial_call(c) {
            st.nontrivial(util::digest_str(&c.brief()));
            st.sample(|| json!({"call": c.brief(), "result": format!("{:?}", r)}));
        }
    }
    Ok(())
}


/// C16 at generator level: the type-confusion contract for the snapshots the generator really hands over
/// (lists that name the type-confusion mutator once; the other mutators' post_process does nothing)
pub fn check_c16_gen(ctx: &Ctx, c: &crate::case::GenCase, st: &mut Stats) -> Result<(), Fail> {
    let tc: Vec<usize> = c.mutators.iter().enumerate().filter(|(_, m)| **m == MutK::Typeconfusion).map(|(i, _)| i).collect();
    if tc.len() != 1 || !c.unsafe_mutations {
        st.label("generation without exactly one unsafe type-confusion mutator (skipped)");
        return Ok(());
    }
    let a = crate::analysis::analyze(c, crate::analysis::Want { spy: true, ..Default::default() });
    if a.result.is_err() {
        st.label("generation-failed(skipped; C09 decides)");
        return Ok(());
    }
    let mut fired = 0usize;
    for e in a.spy.iter().filter(|e| e.idx == tc[0]) {
        let Some((emission, tail)) = &e.post_io else { continue };
        if emission.is_empty() {
            continue;
        }
        let call = Call { mutator: MutK::Typeconfusion, unsafe_mode: true, val: Val::Post { prefix: vec![], emission: emission.clone(), again: 0 }, rate_bits: c.rate.value().to_bits(), src: Src::Rng(0) };
        let res = Res::Post { ret: e.fired, output: tail.clone() };
        if let Err(f) = c16_contract(&call, &res) {
            return ctx.fail(st, Fail::new(format!("gen:{}", f.sig), format!("{}: inside a generation: {}", c.brief(), f.msg)));
        }
        if e.fired {
            fired += 1;
        }
    }
    st.add("type-confusion post_process calls judged inside generations", a.spy.iter().filter(|e| e.idx == tc[0] && e.post_io.is_some()).count() as u64);
    if fired > 0 {
        st.nontrivial(util::digest(a.output().unwrap()) ^ 0x16);
    }
    Ok(())
}

pub fn run_c16(ctx: &Ctx) -> Outcome {
    let mut out = Outcome::new(
        "Direct calls of the public Mutator trait methods: mutator kind x creation flag (safe/unsafe) x method x value (i32/i64 boundaries + \
         random, strings/byte strings up to 64 items incl. empty and non-ASCII, memo indices incl. 0/255/256/usize::MAX, post_process on a \
         well-formed emission of every opcode byte 0..255) x rate in {0, 0.5, 1} x entropy (PRNG seeds, fuzzer byte strings incl. empty / \
         short / special f64 first draws). Oracle: independent restatement of each documented transformation, judged whenever the call \
         fires; no call may panic. The type-confusion contract is also judged, through observing wrappers, for every post_process \
         call inside 12 000 generations (the snapshots the generator really builds). Non-trivial = fired on a boundary value, empty or non-ASCII input, multi-byte emission or exhausted entropy.",
    );
    let r = run_prop(ctx, 1, ctx.n(400_000, 20_000_000), || call_strategy(vec![0.0, 0.5, 1.0, 1.0]), |c: &Call, st: &mut Stats| check_c16(ctx, c, st));
    out.absorb(r);
    // the same contract for the snapshots the generator itself builds (simulated stack and memo deltas included)
    if !out.failed() {
        let mut p = crate::case::Profile::full();
        p.unsafe_mode = crate::case::UnsafeMode::Always;
        p.rate = crate::case::RateMode::InRange;
        p.favour = vec![MutK::Boundary, MutK::Typeconfusion];
        p.favour_pct = 60;
        p.need_mutator = true;
        let r = run_prop(ctx, 7, ctx.n(12_000, 400_000), || crate::case::gencase(&p), |c: &crate::case::GenCase, st: &mut Stats| check_c16_gen(ctx, c, st));
        out.absorb(r);
    }
    // exhaustive part: every i32 boundary value x every int mutator x rate 1 x the special sources; every opcode byte for type confusion
    if !out.failed() {
        let mut items: Vec<Call> = Vec::new();
        let ints = [0, 1, -1, i32::MAX, i32::MIN, i32::MAX - 1, i32::MIN + 1];
        let mut srcs: Vec<Src> = vec![Src::Bytes(vec![])];
        for f in SPECIAL_F64 {
            srcs.push(Src::Bytes(f.to_bits().to_le_bytes().to_vec()));
        }
        for s in 0..32u64 {
            srcs.push(Src::Rng(s));
        }
        for b in 0..=255u8 {
            srcs.push(Src::Bytes(vec![b; 9]));
        }
        for m in [MutK::Bitflip, MutK::Boundary, MutK::Offbyone] {
            for v in ints {
                for s in &srcs {
                    items.push(Call { mutator: m, unsafe_mode: false, val: Val::Int(v), rate_bits: 1.0f64.to_bits(), src: s.clone() });
                    items.push(Call { mutator: m, unsafe_mode: false, val: Val::Long((v as i64).wrapping_mul(0x1_0000_0001)), rate_bits: 1.0f64.to_bits(), src: s.clone() });
                }
            }
        }
        for code in 0..=255u8 {
            for variant in 0..3u8 {
                for s in &srcs {
                    items.push(Call {
                        mutator: MutK::Typeconfusion,
                        unsafe_mode: true,
                        val: Val::Post { prefix: vec![0x80, 4], emission: wellformed_emission(code, variant), again: 0 },
                        rate_bits: 1.0f64.to_bits(),
                        src: s.clone(),
                    });
                }
            }
        }
        for idx in [0usize, 1, 255, 256, 999, 1000, usize::MAX - 1, usize::MAX] {
            for s in &srcs {
                for (m, u) in [(MutK::Memoindex, false), (MutK::Memoindex, true), (MutK::Offbyone, false)] {
                    items.push(Call { mutator: m, unsafe_mode: u, val: Val::Memo(idx), rate_bits: 1.0f64.to_bits(), src: s.clone() });
                }
            }
        }
        // every 2-byte tail after the gate draw: each value a range draw can take from fuzzer bytes
        // (memo-index 0..999, bit positions, boundary / branch selectors, lengths) occurs, so an
        // off-by-one at the end of a range (e.g. 1000 being reachable) cannot hide behind its 1/1000 odds
        let gate = 0.5f64.to_bits().to_le_bytes();
        let probes: Vec<(MutK, bool, Val)> = vec![
            (MutK::Memoindex, true, Val::Memo(5)),
            (MutK::Memoindex, false, Val::Memo(5)),
            (MutK::Memoindex, false, Val::Memo(0)),
            (MutK::Offbyone, false, Val::Memo(0)),
            (MutK::Offbyone, false, Val::Int(i32::MAX)),
            (MutK::Bitflip, false, Val::Int(0)),
            (MutK::Bitflip, false, Val::Long(0)),
            (MutK::Boundary, false, Val::Int(7)),
            (MutK::Boundary, false, Val::Float(7.0f64.to_bits())),
            (MutK::Stringlen, false, Val::Str("abc".into())),
            (MutK::Stringlen, false, Val::Bytes(vec![1, 2, 3])),
            (MutK::Character, false, Val::Str("h\u{e9}llo".into())),
            (MutK::Character, false, Val::Bytes(vec![9, 8, 7])),
            // inputs made of the extreme values of the documented output range: a replacement that
            // collides with (or is derived from) what is already there must still be in range
            (MutK::Character, false, Val::Str("~~~~".into())),
            (MutK::Character, false, Val::Str("!!!!".into())),
            (MutK::Character, false, Val::Str("~".into())),
            (MutK::Character, false, Val::Bytes(vec![0xff; 4])),
            (MutK::Character, false, Val::Bytes(vec![0x00; 4])),
            (MutK::Stringlen, false, Val::Str(String::new())),
            (MutK::Stringlen, false, Val::Bytes(Vec::new())),
            (MutK::Stringlen, false, Val::Str("\u{10348}\u{e9}z".into())),
            (MutK::Offbyone, false, Val::Memo(usize::MAX)),
            (MutK::Offbyone, false, Val::Memo(i64::MAX as usize)),
            (MutK::Offbyone, false, Val::Int(i32::MIN)),
            (MutK::Offbyone, false, Val::Long(i64::MIN)),
            (MutK::Offbyone, false, Val::Long(i64::MAX)),
            (MutK::Bitflip, false, Val::Int(-1)),
            (MutK::Bitflip, false, Val::Long(i64::MIN)),
            (MutK::Memoindex, false, Val::Memo(usize::MAX)),
        ];
        for x in 0..65536u32 {
            let mut b = gate.to_vec();
            b.push((x >> 8) as u8);
            b.push(x as u8);
            for (m, u, v) in &probes {
                items.push(Call { mutator: *m, unsafe_mode: *u, val: v.clone(), rate_bits: 1.0f64.to_bits(), src: Src::Bytes(b.clone()) });
            }
        }
        let (st, found) = run_enum(items, |c, st| check_c16(ctx, c, st));
        out.stats.merge(st);
        if let Some((c, f)) = found {
            out.violation = Some(crate::runner::Violation { fail: f, case: serde_json::to_value(&c).unwrap() });
        }
    }
    out
}

// ------------------------------------------------------------------------------------------
// C15 (direct part)
// ------------------------------------------------------------------------------------------

pub fn check_c15_direct(ctx: &Ctx, c: &Call, st: &mut Stats) -> Result<(), Fail> {
    let rate = c.rate();
    let name = format!("{:?}", c.mutator).to_lowercase();
    let r = match do_call(c) {
        Ok(r) => r,
        Err(_) => {
            st.label("panicked (skipped; C16 decides)");
            return Ok(());
        }
    };
    let fired = !matches!(r, Res::None | Res::Post { ret: false, .. });
    let changed = match (&c.val, &r) {
        (Val::Post { prefix, emission, .. }, Res::Post { output, .. }) => {
            let mut o = prefix.clone();
            o.extend_from_slice(emission);
            *output != o
        }
        _ => false,
    };
    let first = c.src.first_f64();
    let odd_draw = !(first > 0.0 && first < 1.0);
    if odd_draw {
        st.label("first gate draw outside (0,1) or exhausted");
    }
    if rate == 0.0 {
        st.label("rate=0");
        if fired || changed {
            return ctx.fail(
                st,
                Fail::new(format!("rate0-fired:{}:{}", name, c.val.kind()), format!("{} fired at rate 0.0 -> {:?} (first draw of the source: {})", c.brief(), r, first)),
            );
        }
    } else if rate == 1.0 {
        st.label("rate=1");
        let app = applicable(c.mutator, c.unsafe_mode, &c.val);
        if app {
            st.label("rate=1 applicable");
        }
        // Pushed::Lenient emissions may or may not be acted on
        let lenient = matches!(&c.val, Val::Post { emission, .. } if pushed_kind(emission) == Pushed::Lenient);
        if app && !fired && !lenient {
            return ctx.fail(
                st,
                Fail::new(format!("rate1-not-fired:{}:{}", name, c.val.kind()), format!("{} did not fire at rate 1.0 (first draw of the source: {})", c.brief(), first)),
            );
        }
    }
    if odd_draw || c.src.exhausted() {
        st.nontrivial(util::digest_str(&c.brief()));
        st.sample(|| json!({"call": c.brief(), "fired": fired, "first_draw": format!("{}", first)}));
    }
    Ok(())
}

// ------------------------------------------------------------------------------------------
// C18
// ------------------------------------------------------------------------------------------

pub const GRID: [usize; 16] = [0, 1, 2, 3, 94, 95, 96, 255, 256, 257, 65535, 65536, 65537, 1 << 32, usize::MAX - 1, usize::MAX];

#[derive(Clone, Debug, Serialize, Deserialize)]
pub struct AdapterCase {
    pub src: Src,
    /// draws made before the judged one (advances the source state)
    pub warmup: u8,
}

fn c18_one(ctx: &Ctx, ac: &AdapterCase, st: &mut Stats, full_pairs: bool) -> Result<(), Fail> {
    let r = catch_unwind(AssertUnwindSafe(|| -> Result<(), Fail> {
        // each judged call starts from the same source state: rebuild + warm up
        let fresh = |f: &mut dyn FnMut(&mut GenerationSource) -> Result<(), Fail>| -> Result<(), Fail> {
            ac.src.with(|g| {
                for i in 0..ac.warmup {
                    match i % 3 {
                        0 => {
                            g.gen_u8();
                        }
                        1 => {
                            g.gen_bool();
                        }
                        _ => {
                            g.choose_index(7);
                        }
                    }
                }
                f(g)
            })
        };
        for &n in GRID.iter() {
            let mut got = 0usize;
            fresh(&mut |g| {
                got = g.choose_index(n);
                Ok(())
            })?;
            if (n == 0 && got != 0) || (n > 0 && got >= n) {
                return Err(Fail::new("choose_index:out-of-range", format!("choose_index({}) = {} on {}", n, got, ac.src.brief())));
            }
        }
        for (ia, &a) in GRID.iter().enumerate() {
            for (ib, &b) in GRID.iter().enumerate() {
                if !full_pairs && (ia + ib) % 3 != 0 {
                    continue;
                }
                let mut got = 0usize;
                fresh(&mut |g| {
                    got = g.gen_range(a, b);
                    Ok(())
                })?;
                let ok = if a >= b { got == a } else { got >= a && got < b };
                if !ok {
                    return Err(Fail::new("gen_range:out-of-range", format!("gen_range({}, {}) = {} on {}", a, b, got, ac.src.brief())));
                }
            }
        }
        let mut ch = ' ';
        fresh(&mut |g| {
            ch = g.gen_ascii_char();
            Ok(())
        })?;
        if !(' '..='~').contains(&ch) {
            return Err(Fail::new("gen_ascii_char:not-printable", format!("gen_ascii_char() = {:?} on {}", ch, ac.src.brief())));
        }
        for l in [0usize, 1, 2, 7, 8, 9, 255, 256, 4096, 65536] {
            let mut len = 0usize;
            fresh(&mut |g| {
                len = g.gen_bytes(l).len();
                Ok(())
            })?;
            if len != l {
                return Err(Fail::new("gen_bytes:length", format!("gen_bytes({}) returned {} bytes on {}", l, len, ac.src.brief())));
            }
        }
        // scalar draws never fail
        fresh(&mut |g| {
            let _ = (g.gen_bool(), g.gen_u8(), g.gen_u16(), g.gen_u32(), g.gen_i32(), g.gen_i64(), g.gen_f64());
            Ok(())
        })?;
        // exhausted bytes: fixed deterministic fallback (two consecutive equal calls agree)
        if let Src::Bytes(b) = &ac.src {
            if b.is_empty() {
                ac.src.with(|g| -> Result<(), Fail> {
                    for &n in GRID.iter() {
                        let (x, y) = (g.choose_index(n), g.choose_index(n));
                        if x != y || x != 0 {
                            return Err(Fail::new("fallback:choose_index", format!("exhausted choose_index({}) = {}, {}", n, x, y)));
                        }
                    }
                    let (x, y) = (g.gen_range(5, 50), g.gen_range(5, 50));
                    if x != y || x != 5 {
                        return Err(Fail::new("fallback:gen_range", format!("exhausted gen_range(5,50) = {}, {}", x, y)));
                    }
                    if g.gen_ascii_char() != g.gen_ascii_char() || g.gen_bytes(9) != g.gen_bytes(9) || g.gen_u32() != g.gen_u32() || g.gen_bool() != g.gen_bool() {
                        return Err(Fail::new("fallback:unstable", "exhausted source returned different fallbacks for equal calls".to_string()));
                    }
                    if g.gen_f64().to_bits() != g.gen_f64().to_bits() {
                        return Err(Fail::new("fallback:unstable", "exhausted gen_f64 fallback is unstable".to_string()));
                    }
                    Ok(())
                })?;
            }
        }
        Ok(())
    }));
    let calls = GRID.len() + if full_pairs { 256 } else { 86 } + 1 + 10 + 7;
    st.add("adapter calls judged", calls as u64);
    match r {
        Ok(Ok(())) => {
            if ac.src.exhausted() {
                st.label("exhausted / short source");
            }
            st.nontrivial(util::digest_str(&format!("{}/{}", ac.src.brief(), ac.warmup)));
            st.sample(|| json!({"source": ac.src.brief(), "warmup_draws": ac.warmup}));
            Ok(())
        }
        Ok(Err(f)) => ctx.fail(st, f),
        Err(p) => ctx.fail(st, Fail::new("panic", format!("entropy adapter panicked on {}: {}", ac.src.brief(), panic_message(p)))),
    }
}

pub fn check_c18(ctx: &Ctx, ac: &AdapterCase, st: &mut Stats) -> Result<(), Fail> {
    c18_one(ctx, ac, st, true)
}

pub fn run_c18(ctx: &Ctx) -> Outcome {
    let mut out = Outcome::new(
        "EntropySource adapters of both sources. Exhaustive: every fuzzer byte string of length <= 2 (65 793 sources) x the grid \
         {0,1,2,3,94,95,96,255,256,257,65535,65536,65537,2^32,usize::MAX-1,usize::MAX} for choose_index(n) and gen_range(a,b) (all 256 pairs \
         for length <= 1, a third of them for length 2), gen_ascii_char, gen_bytes(l <= 65536), all scalar draws. Random: byte strings of \
         length 0..16 and PRNG seeds with 0..7 warm-up draws. Oracle: choose_index(n) < n (0 if n = 0); gen_range in [a,b) (a if a >= b); \
         printable ASCII; exact length; no panic; exhausted bytes give a fixed fallback. Every source is a distinct non-trivial case; \
         `adapter calls judged` counts the individual calls.",
    );
    // exhaustive short strings
    let mut items: Vec<(AdapterCase, bool)> = vec![(AdapterCase { src: Src::Bytes(vec![]), warmup: 0 }, true)];
    for a in 0..=255u8 {
        items.push((AdapterCase { src: Src::Bytes(vec![a]), warmup: 0 }, true));
    }
    let two: u32 = if ctx.thorough() { 65536 } else { 65536 };
    for x in 0..two {
        items.push((AdapterCase { src: Src::Bytes(vec![(x >> 8) as u8, x as u8]), warmup: 0 }, ctx.thorough()));
    }
    let (st, found) = run_enum(items, |(ac, full), st| c18_one(ctx, ac, st, *full));
    out.stats.merge(st);
    if let Some(((ac, _), f)) = found {
        out.violation = Some(crate::runner::Violation { fail: f, case: serde_json::to_value(&ac).unwrap() });
        return out;
    }
    out.exhaustive = false;
    out.extra.insert("exhaustive_part".into(), json!("all fuzzer byte strings of length <= 2 (65 793) were enumerated"));
    let strat = || {
        (
            prop_oneof![
                2 => any::<u64>().prop_map(Src::Rng),
                3 => proptest::collection::vec(any::<u8>(), 0..=16).prop_map(Src::Bytes),
                1 => proptest::collection::vec(any::<u8>(), 16..64).prop_map(Src::Bytes),
            ],
            0u8..8,
        )
            .prop_map(|(src, warmup)| AdapterCase { src, warmup })
            .boxed()
    };
    let r = run_prop(ctx, 1, ctx.n(20_000, 800_000), strat, |ac: &AdapterCase, st: &mut Stats| check_c18(ctx, ac, st));
    out.absorb(r);
    out
}
