//! Counting global allocator: per-thread live bytes (allocated - freed on this thread).
//! Installed by the `pfverif` binary; used by C14.

use std::alloc::{GlobalAlloc, Layout, System};
use std::cell::Cell;

thread_local! {
    static LIVE: Cell<i64> = const { Cell::new(0) };
}

pub struct Counting;

#[inline]
fn bump(d: i64) {
    // try_with: TLS may already be torn down while a thread exits
    let _ = LIVE.try_with(|l| l.set(l.get() + d));
}

unsafe impl GlobalAlloc for Counting {
    unsafe fn alloc(&self, l: Layout) -> *mut u8 {
        let p = System.alloc(l);
        if !p.is_null() {
            bump(l.size() as i64);
        }
        p
    }
    unsafe fn dealloc(&self, p: *mut u8, l: Layout) {
        System.dealloc(p, l);
        bump(-(l.size() as i64));
    }
    unsafe fn alloc_zeroed(&self, l: Layout) -> *mut u8 {
        let p = System.alloc_zeroed(l);
        if !p.is_null() {
            bump(l.size() as i64);
        }
        p
    }
    unsafe fn realloc(&self, p: *mut u8, l: Layout, new_size: usize) -> *mut u8 {
        let q = System.realloc(p, l, new_size);
        if !q.is_null() {
            bump(new_size as i64 - l.size() as i64);
        }
        q
    }
}

/// live bytes attributed to the current thread
pub fn live() -> i64 {
    LIVE.with(|l| l.get())
}
