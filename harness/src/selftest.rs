//! `pfverif selftest [n]`: differential test of refpvm (lexer + machine) against CPython
//! pickletools on (a) real generator outputs, (b) byte-level corruptions of them, (c) random
//! opcode streams. A disagreement is a defect of the *harness*; it is printed and the command
//! exits 1 so that setup fails loudly rather than a check raising a false alarm later.

use crate::case::{GenCase, Profile, SizeMode};
use crate::props::frontends::materialise;
use crate::pyoracle;
use crate::refpvm::{lexer, machine, optable as t};
use crate::runner::Ctx;
use crate::util;
use rand::{Rng, SeedableRng};
use rand_chacha::ChaCha8Rng;

fn corrupt(rng: &mut ChaCha8Rng, v: &[u8]) -> Vec<u8> {
    let mut o = v.to_vec();
    if o.is_empty() {
        return o;
    }
    for _ in 0..rng.random_range(1..4) {
        match rng.random_range(0..6) {
            0 => {
                let i = rng.random_range(0..o.len());
                o[i] ^= 1 << rng.random_range(0..8);
            }
            1 => {
                let i = rng.random_range(0..o.len());
                o[i] = rng.random();
            }
            2 => {
                let i = rng.random_range(0..o.len());
                o.truncate(i);
                if o.is_empty() {
                    o.push(b'.');
                }
            }
            3 => {
                let i = rng.random_range(0..=o.len());
                let codes = t::OPCODES;
                o.insert(i, codes[rng.random_range(0..codes.len())].code);
            }
            4 => {
                let i = rng.random_range(0..o.len());
                o.remove(i);
                if o.is_empty() {
                    o.push(b'.');
                }
            }
            _ => {
                let i = rng.random_range(0..o.len());
                let special = [b'\\', b'\'', b'"', b'\n', b'L', b'x', b'u', b'U', 0x80, 0xff, b'0', b'1', b' ', b'_', b'-', b'e', b'.'];
                o[i] = special[rng.random_range(0..special.len())];
            }
        }
    }
    o
}

fn random_stream(rng: &mut ChaCha8Rng) -> Vec<u8> {
    let mut o = Vec::new();
    let n = rng.random_range(1..40);
    for _ in 0..n {
        let info = &t::OPCODES[rng.random_range(0..t::OPCODES.len())];
        if info.code == t::STOP {
            continue;
        }
        let e = crate::props::direct::wellformed_emission(info.code, rng.random());
        o.extend_from_slice(&e);
    }
    o.push(t::STOP);
    o
}

pub fn run(ctx: &Ctx, n: usize) -> i32 {
    let mut rng = ChaCha8Rng::seed_from_u64(ctx.seed ^ 0x5e1f);
    let mut p = Profile::full();
    p.size = SizeMode::Mixed;
    let cases: Vec<GenCase> = materialise(&crate::case::gencase(&p), ctx.seed, 991, n / 3);
    let mut streams: Vec<Vec<u8>> = Vec::new();
    for c in &cases {
        if let Ok(o) = c.run() {
            streams.push(corrupt(&mut rng, &o));
            streams.push(o);
        }
    }
    while streams.len() < n {
        let s = random_stream(&mut rng);
        if rng.random_bool(0.3) {
            streams.push(corrupt(&mut rng, &s));
        } else {
            streams.push(s);
        }
    }
    let verdicts = match pyoracle::dis_batch(ctx, &streams) {
        Ok(v) => v,
        Err(e) => {
            println!("selftest: python oracle unavailable: {}", e);
            return 2;
        }
    };
    let (mut lex_agree, mut dis_agree, mut bad) = (0usize, 0usize, 0usize);
    let (mut py_lex_ok, mut py_dis_ok) = (0usize, 0usize);
    for (s, v) in streams.iter().zip(verdicts.iter()) {
        let ops = lexer::lex_py(s);
        let my_lex_ok = ops.is_ok();
        if v.genops_ok() {
            py_lex_ok += 1;
        }
        if v.dis_ok() {
            py_dis_ok += 1;
        }
        if my_lex_ok == v.genops_ok() {
            lex_agree += 1;
        } else {
            bad += 1;
            if bad <= 12 {
                println!("LEXER DISAGREES: refpvm={:?} pickletools.genops={} stream={}", ops.as_ref().map(|o| o.len()).map_err(|e| e.to_string()), v.genops, util::hex(&s[..s.len().min(120)]));
            }
            continue;
        }
        if let Ok(ops) = ops {
            let r = machine::run(&ops);
            let my_ok = r.fault.is_none();
            if my_ok == v.dis_ok() {
                dis_agree += 1;
            } else {
                bad += 1;
                if bad <= 12 {
                    println!("MACHINE DISAGREES: refpvm={:?} pickletools.dis={} stream={}", r.fault.map(|f| f.to_string()), v.dis, util::hex(&s[..s.len().min(160)]));
                }
            }
        }
    }
    println!(
        "selftest: {} streams; lexer verdicts agreeing with pickletools.genops: {} ({} accepted by CPython); machine verdicts agreeing with pickletools.dis: {} ({} accepted by CPython); disagreements: {}",
        streams.len(),
        lex_agree,
        py_lex_ok,
        dis_agree,
        py_dis_ok,
        bad
    );
    if bad > 0 {
        1
    } else {
        0
    }
}
