//! Entry points for the libFuzzer targets under /verif/fuzz: decode the fuzzer's bytes into the
//! same case types proptest uses, run the real code, apply the *semantic* oracles in-target.
//! On a violation a JSON replay file is written, a VIOLATION line is printed and the process
//! aborts (which is what libFuzzer records as a crash).

use crate::analysis::{analyze, Want};
use crate::case::{gencase_from_bytes, Entropy, GenCase, UnsafeMode};
use crate::props::direct::{self, Call, Src, Val};
use crate::props::lib_level::{self, Op, SeqCase};
use crate::props::{c15, c17, outputs};
use crate::runner::{self, Ctx, Fail, Known, Stats, Violation};
use std::sync::OnceLock;

fn ctx_for(prop: &str) -> Ctx {
    static BASE: OnceLock<(String, String, Known, u64)> = OnceLock::new();
    let (v, r, k, s) = BASE.get_or_init(|| {
        let verif_dir = std::env::var("VERIF_DIR").unwrap_or_else(|_| "/verif".to_string());
        let repo_dir = std::env::var("VERIF_REPO").unwrap_or_else(|_| "/repo".to_string());
        let known = Known::load(&format!("{}/known_findings.json", verif_dir));
        let seed = std::env::var("VERIF_SEED").ok().and_then(|s| s.parse().ok()).unwrap_or(1);
        (verif_dir, repo_dir, known, seed)
    });
    Ctx { prop: prop.to_string(), tier: "thorough".into(), seed: *s, verif_dir: v.clone(), repo_dir: r.clone(), known: k.clone(), strict: false }
}

fn report(prop: &str, f: Fail, case: serde_json::Value) -> ! {
    let ctx = ctx_for(prop);
    let path = runner::write_replay(&ctx, &Violation { fail: f.clone(), case });
    println!("  signature: {}", f.sig);
    println!("  message:   {}", f.msg);
    println!("VIOLATION property={} replay={}", prop, path);
    std::process::abort();
}

fn judge_case(prop: &str, r: Result<(), Fail>, case: &GenCase) {
    if let Err(f) = r {
        let ctx = ctx_for(prop);
        if !ctx.known.is_known(prop, &f.sig) {
            report(prop, f, serde_json::to_value(case).unwrap());
        }
    }
}

pub fn quiet_panics() {
    static ONCE: OnceLock<()> = OnceLock::new();
    ONCE.get_or_init(|| {
        if std::env::var_os("PFV_SHOW_PANICS").is_none() {
            std::panic::set_hook(Box::new(|_| {}));
        }
    });
}

/// target `gen_all`: one generation, every output-based property that applies
pub fn gen_all(data: &[u8]) {
    quiet_panics();
    let case = gencase_from_bytes(data, UnsafeMode::Draw);
    let safe = !case.unsafe_mutations;
    let want = Want { steps: true, state: safe, valid: false, spy: !case.mutators.is_empty() && [0.0, 1.0].contains(&case.rate.effective()), machine: true };
    let a = analyze(&case, want);
    let mut st = Stats::default();
    if let Err(e) = &a.result {
        judge_case("C09", Err(Fail::new(format!("fuzz:{}", e).chars().take(60).collect::<String>(), format!("{} {}", case.brief(), e))), &case);
        return;
    }
    let out = a.output().unwrap().to_vec();
    let j = |r: Result<bool, Fail>| r.map(|_| ()).map_err(|f| f.with_output(&out));
    judge_case("C04", j(outputs::judge_c04(&case, &a, &mut st)), &case);
    judge_case("C06", j(outputs::judge_c06(&case, &a, &mut st)), &case);
    judge_case("C10", j(outputs::judge_c10(&case, &a, &mut st)), &case);
    judge_case("C11", j(outputs::judge_c11(&case, &a, &mut st)), &case);
    if safe {
        judge_case("C01", j(outputs::judge_c01(&case, &a, &mut st)), &case);
        judge_case("C02", j(outputs::judge_c02(&case, &a, &mut st)), &case);
        judge_case("C03", j(outputs::judge_c03(&case, &a, &mut st)), &case);
        judge_case("C05", j(outputs::judge_c05(&case, &a, &mut st)), &case);
        judge_case("C17", j(c17::judge(&a, &mut st)), &case);
    }
    if want.spy {
        judge_case("C15", c15::judge_events(&case, &a.spy).map(|_| ()), &case);
    }
}

/// target `mutators`: one direct mutator call (C15 at rate 0/1, C16 always)
pub fn mutators(data: &[u8]) {
    quiet_panics();
    let b = |i: usize| data.get(i).copied().unwrap_or(0);
    let mutator = crate::case::ALL_MUTK[(b(0) % 7) as usize];
    let unsafe_mode = b(1) & 1 != 0;
    let rate = [0.0f64, 1.0, 0.5, 1.0][(b(1) >> 1) as usize % 4];
    let vlen = (b(3) as usize % 65).min(data.len().saturating_sub(8));
    let payload: Vec<u8> = data.iter().skip(8).take(vlen).copied().collect();
    let rest: Vec<u8> = data.iter().skip(8 + vlen).copied().collect();
    let word = |o: usize| {
        let mut w = [0u8; 8];
        for i in 0..8 {
            w[i] = payload.get(o + i).copied().unwrap_or(0);
        }
        u64::from_le_bytes(w)
    };
    let val = match b(2) % 7 {
        0 => Val::Int(word(0) as i32),
        1 => Val::Long(word(0) as i64),
        2 => Val::Float(word(0)),
        3 => Val::Str(String::from_utf8_lossy(&payload).into_owned()),
        4 => Val::Bytes(payload.clone()),
        5 => Val::Memo(word(0) as usize),
        _ => Val::Post { prefix: payload.iter().take(4).copied().collect(), emission: direct::wellformed_emission(b(4), b(5)), again: b(6) % 3 },
    };
    let src = if b(6) & 1 != 0 { Src::Rng(word(0) ^ b(7) as u64) } else { Src::Bytes(rest) };
    let call = Call { mutator, unsafe_mode, val, rate_bits: rate.to_bits(), src };
    let mut st = Stats::default();
    let c16 = ctx_for("C16");
    if let Err(f) = direct::check_c16(&c16, &call, &mut st) {
        report("C16", f, serde_json::to_value(&call).unwrap());
    }
    if rate == 0.0 || rate == 1.0 {
        let c15 = ctx_for("C15");
        if let Err(f) = direct::check_c15_direct(&c15, &call, &mut st) {
            report("C15", f, serde_json::to_value(&call).unwrap());
        }
    }
}

/// decode the `reuse` target's input into a call sequence
pub fn decode_reuse(data: &[u8]) -> SeqCase {
    let mut base = gencase_from_bytes(data, UnsafeMode::Draw);
    base.prior_calls = 0;
    let body: Vec<u8> = match &base.entropy {
        Entropy::Bytes(b) => b.clone(),
        Entropy::Seed(s) => s.to_le_bytes().to_vec(),
    };
    base.entropy = Entropy::Seed(u64::from_le_bytes({
        let mut w = [0u8; 8];
        for (i, x) in body.iter().take(8).enumerate() {
            w[i] = *x;
        }
        w
    }));
    let mut ops = vec![];
    let mut i = 0usize;
    while i < body.len() && ops.len() < 6 {
        match body[i] % 4 {
            0 => ops.push(Op::Generate),
            1 => ops.push(if body.get(i + 1).map_or(false, |b| b & 1 == 1) { Op::TakeOutput } else { Op::Reset }),
            _ => {
                let n = body.get(i + 1).copied().unwrap_or(0) as usize;
                let chunk: Vec<u8> = body.iter().skip(i + 2).take(n).copied().collect();
                i += 1 + chunk.len();
                ops.push(Op::FromBytes(chunk));
            }
        }
        i += 1;
    }
    ops.push(Op::Generate);
    let unseeded = data.get(1).map_or(false, |b| b & 0x80 != 0);
    SeqCase { base, ops, unseeded }
}

/// target `reuse`: a call sequence on one generator (C08); built with LeakSanitizer on, which
/// independently re-decides C14
pub fn reuse(data: &[u8]) {
    quiet_panics();
    let sc = decode_reuse(data);
    let ctx = ctx_for("C08");
    let mut st = Stats::default();
    if let Err(f) = lib_level::check_c08(&ctx, &sc, &mut st) {
        report("C08", f, serde_json::to_value(&sc).unwrap());
    }
}
