//! Parallel proptest driver, statistics, evidence and replay files, known findings.

use crate::util;
use proptest::strategy::{BoxedStrategy, Strategy};
use proptest::test_runner::{Config, RngAlgorithm, TestCaseError, TestError, TestRng, TestRunner};
use serde_json::{json, Value};
use std::collections::{BTreeMap, HashSet};
use std::sync::atomic::{AtomicBool, Ordering};
use std::sync::Mutex;
use std::time::Instant;

pub const THREADS: usize = 16;
pub const MAX_SAMPLES: usize = 6;

#[derive(Clone, Debug)]
pub struct Fail {
    /// stable signature `<oracle>:<class>[:<detail>]` matched against known_findings.json
    pub sig: String,
    pub msg: String,
    /// optional output bytes for the replay file
    pub output: Option<Vec<u8>>,
}

impl Fail {
    pub fn new(sig: impl Into<String>, msg: impl Into<String>) -> Self {
        Fail { sig: sig.into(), msg: msg.into(), output: None }
    }
    pub fn with_output(mut self, o: &[u8]) -> Self {
        self.output = Some(o.to_vec());
        self
    }
}

#[derive(Default, Debug, Clone)]
pub struct Stats {
    pub evaluations: u64,
    pub labels: BTreeMap<String, u64>,
    pub nontrivial: HashSet<u64>,
    pub samples: Vec<Value>,
    pub excluded_known: BTreeMap<String, u64>,
}

impl Stats {
    pub fn label(&mut self, l: &str) {
        *self.labels.entry(l.to_string()).or_insert(0) += 1;
    }
    pub fn add(&mut self, l: &str, n: u64) {
        *self.labels.entry(l.to_string()).or_insert(0) += n;
    }
    pub fn nontrivial(&mut self, d: u64) {
        self.nontrivial.insert(d);
    }
    pub fn sample(&mut self, v: impl FnOnce() -> Value) {
        if self.samples.len() < MAX_SAMPLES {
            self.samples.push(v());
        }
    }
    pub fn merge(&mut self, o: Stats) {
        self.evaluations += o.evaluations;
        for (k, v) in o.labels {
            *self.labels.entry(k).or_insert(0) += v;
        }
        self.nontrivial.extend(o.nontrivial);
        for s in o.samples {
            if self.samples.len() < MAX_SAMPLES {
                self.samples.push(s);
            }
        }
        for (k, v) in o.excluded_known {
            *self.excluded_known.entry(k).or_insert(0) += v;
        }
    }
    pub fn get(&self, l: &str) -> u64 {
        self.labels.get(l).copied().unwrap_or(0)
    }
}

// ------------------------------------------------------------------------------------------
// known findings
// ------------------------------------------------------------------------------------------

#[derive(Clone, Debug, Default)]
pub struct Known {
    /// (property, signature, description) of findings that are open (recorded, not repaired)
    pub open: Vec<(String, String, String)>,
}

impl Known {
    pub fn load(path: &str) -> Known {
        let mut k = Known::default();
        let Ok(txt) = std::fs::read_to_string(path) else { return k };
        let Ok(v) = serde_json::from_str::<Value>(&txt) else { return k };
        if let Some(arr) = v.get("open").and_then(|x| x.as_array()) {
            for e in arr {
                let p = e.get("property").and_then(|x| x.as_str()).unwrap_or("");
                let s = e.get("signature").and_then(|x| x.as_str()).unwrap_or("");
                let d = e.get("what").and_then(|x| x.as_str()).unwrap_or("");
                if !p.is_empty() && !s.is_empty() {
                    k.open.push((p.to_string(), s.to_string(), d.to_string()));
                }
            }
        }
        k
    }
    pub fn is_known(&self, prop: &str, sig: &str) -> bool {
        self.open.iter().any(|(p, s, _)| p == prop && s == sig)
    }
    pub fn for_prop(&self, prop: &str) -> Vec<&(String, String, String)> {
        self.open.iter().filter(|(p, _, _)| p == prop).collect()
    }
}

// ------------------------------------------------------------------------------------------
// context
// ------------------------------------------------------------------------------------------

#[derive(Clone, Debug)]
pub struct Ctx {
    pub prop: String,
    pub tier: String,
    pub seed: u64,
    pub verif_dir: String,
    pub repo_dir: String,
    pub known: Known,
    /// replay mode re-judges one case strictly (known findings are not excluded)
    pub strict: bool,
}

impl Ctx {
    pub fn thorough(&self) -> bool {
        self.tier == "thorough"
    }
    /// pick the case count by tier
    pub fn n(&self, quick: u64, thorough: u64) -> u64 {
        if self.thorough() {
            thorough
        } else {
            quick
        }
    }
    /// Turn an oracle failure into `Err` unless it is a listed known finding (then it is counted
    /// and the search continues).
    pub fn fail(&self, st: &mut Stats, f: Fail) -> Result<(), Fail> {
        if !self.strict && self.known.is_known(&self.prop, &f.sig) {
            *st.excluded_known.entry(f.sig.clone()).or_insert(0) += 1;
            Ok(())
        } else {
            Err(f)
        }
    }
}

// ------------------------------------------------------------------------------------------
// parallel proptest
// ------------------------------------------------------------------------------------------

pub struct Found<T> {
    pub case: T,
    pub fail: Fail,
    pub shrunk: bool,
}

pub struct PropRun<T> {
    pub stats: Stats,
    pub found: Option<Found<T>>,
}

/// Run `check` on `cases` generated values, spread over THREADS workers, each with its own
/// deterministic proptest runner. The first failure (lowest worker index that failed) is
/// shrunk by proptest and returned.
pub fn run_prop<T, SF, CF>(ctx: &Ctx, purpose: u64, cases: u64, make_strategy: SF, check: CF) -> PropRun<T>
where
    T: std::fmt::Debug + Clone + Send + 'static,
    SF: Fn() -> BoxedStrategy<T> + Sync,
    CF: Fn(&T, &mut Stats) -> Result<(), Fail> + Sync,
{
    let stop = AtomicBool::new(false);
    let results: Mutex<Vec<(usize, Stats, Option<Found<T>>)>> = Mutex::new(Vec::new());
    let per = cases.div_ceil(THREADS as u64).max(1);
    std::thread::scope(|sc| {
        for w in 0..THREADS {
            let stop = &stop;
            let results = &results;
            let make_strategy = &make_strategy;
            let check = &check;
            let seed = ctx.seed;
            std::thread::Builder::new()
                .stack_size(64 << 20)
                .spawn_scoped(sc, move || {
                    let cfg = Config {
                        cases: per as u32,
                        failure_persistence: None,
                        max_shrink_iters: 2048,
                        // shrinking re-runs the case; bound it so that a failure on a 8000-opcode
                        // case does not take minutes to report (the verdict does not depend on it)
                        max_shrink_time: 20_000,
                        max_global_rejects: 1 << 30,
                        max_local_rejects: 1 << 30,
                        ..Config::default()
                    };
                    let rng = TestRng::from_seed(RngAlgorithm::ChaCha, &util::seed_bytes(seed, w as u64, purpose));
                    let mut runner = TestRunner::new_with_rng(cfg, rng);
                    let strat = make_strategy();
                    let stats = std::cell::RefCell::new(Stats::default());
                    let frozen = std::cell::Cell::new(false);
                    let last_fail: std::cell::RefCell<Option<Fail>> = std::cell::RefCell::new(None);
                    let res = runner.run(&strat, |case| {
                        if !frozen.get() && stop.load(Ordering::Relaxed) {
                            // another worker failed: finish quickly
                            return Ok(());
                        }
                        let mut scratch = Stats::default();
                        let r = check(&case, &mut scratch);
                        if !frozen.get() {
                            scratch.evaluations += 1;
                            stats.borrow_mut().merge(scratch);
                        }
                        match r {
                            Ok(()) => Ok(()),
                            Err(f) => {
                                frozen.set(true);
                                stop.store(true, Ordering::Relaxed);
                                let m = f.msg.clone();
                                *last_fail.borrow_mut() = Some(f);
                                Err(TestCaseError::fail(m))
                            }
                        }
                    });
                    let found = match res {
                        Ok(()) => None,
                        Err(TestError::Fail(_, value)) => {
                            // re-judge the shrunk value to get its own signature/message
                            let mut scratch = Stats::default();
                            let fail = match check(&value, &mut scratch) {
                                Err(f) => f,
                                Ok(()) => last_fail.borrow().clone().unwrap_or_else(|| Fail::new("unknown", "failure did not reproduce")),
                            };
                            Some(Found { case: value, fail, shrunk: true })
                        }
                        Err(TestError::Abort(r)) => Some(Found {
                            case: strat.new_tree(&mut TestRunner::deterministic()).unwrap().current(),
                            fail: Fail::new("harness:abort", format!("proptest aborted: {}", r)),
                            shrunk: false,
                        }),
                    };
                    results.lock().unwrap().push((w, stats.into_inner(), found));
                })
                .expect("spawn worker");
        }
    });
    let mut v = results.into_inner().unwrap();
    v.sort_by_key(|x| x.0);
    let mut stats = Stats::default();
    let mut found = None;
    for (_, s, f) in v {
        stats.merge(s);
        if found.is_none() {
            found = f;
        }
    }
    PropRun { stats, found }
}

/// Run `f` over an explicit list of work items on THREADS workers (for enumerations).
pub fn run_enum<T, CF>(items: Vec<T>, check: CF) -> (Stats, Option<(T, Fail)>)
where
    T: Clone + Send + Sync,
    CF: Fn(&T, &mut Stats) -> Result<(), Fail> + Sync,
{
    let stop = AtomicBool::new(false);
    let next = std::sync::atomic::AtomicUsize::new(0);
    let results: Mutex<Vec<(Stats, Option<(usize, Fail)>)>> = Mutex::new(Vec::new());
    std::thread::scope(|sc| {
        for _ in 0..THREADS {
            std::thread::Builder::new()
                .stack_size(64 << 20)
                .spawn_scoped(sc, || {
                    let mut st = Stats::default();
                    let mut found = None;
                    loop {
                        if stop.load(Ordering::Relaxed) {
                            break;
                        }
                        let i = next.fetch_add(1, Ordering::Relaxed);
                        if i >= items.len() {
                            break;
                        }
                        st.evaluations += 1;
                        if let Err(f) = check(&items[i], &mut st) {
                            found = Some((i, f));
                            stop.store(true, Ordering::Relaxed);
                            break;
                        }
                    }
                    results.lock().unwrap().push((st, found));
                })
                .expect("spawn");
        }
    });
    let mut stats = Stats::default();
    let mut found: Option<(usize, Fail)> = None;
    for (s, f) in results.into_inner().unwrap() {
        stats.merge(s);
        if let Some((i, f)) = f {
            if found.as_ref().map_or(true, |(j, _)| i < *j) {
                found = Some((i, f));
            }
        }
    }
    (stats, found.map(|(i, f)| (items[i].clone(), f)))
}

// ------------------------------------------------------------------------------------------
// outcome, evidence, replay files
// ------------------------------------------------------------------------------------------

pub struct Violation {
    pub fail: Fail,
    /// JSON of the (shrunk) failing case, in the replay format of the property
    pub case: Value,
}

pub struct Outcome {
    pub stats: Stats,
    pub rule: String,
    pub assumptions: Vec<String>,
    pub extra: BTreeMap<String, Value>,
    pub violation: Option<Violation>,
    /// the check could not reach a verdict (exit 2)
    pub inconclusive: Option<String>,
    pub exhaustive: bool,
}

impl Outcome {
    pub fn new(rule: &str) -> Self {
        Outcome {
            stats: Stats::default(),
            rule: rule.to_string(),
            assumptions: vec![],
            extra: BTreeMap::new(),
            violation: None,
            inconclusive: None,
            exhaustive: false,
        }
    }
    pub fn absorb<T: serde::Serialize>(&mut self, r: PropRun<T>) {
        self.stats.merge(r.stats);
        if self.violation.is_none() {
            if let Some(f) = r.found {
                self.violation = Some(Violation { fail: f.fail, case: serde_json::to_value(&f.case).unwrap_or(Value::Null) });
            }
        }
    }
    pub fn failed(&self) -> bool {
        self.violation.is_some()
    }
}

pub fn write_replay(ctx: &Ctx, v: &Violation) -> String {
    let dir = format!("{}/replays", ctx.verif_dir);
    let _ = std::fs::create_dir_all(&dir);
    let body = json!({
        "property": ctx.prop,
        "signature": v.fail.sig,
        "message": v.fail.msg,
        "case": v.case,
        "output_hex": v.fail.output.as_ref().map(|o| util::hex(o)),
        "found_with": { "tier": ctx.tier, "seed": ctx.seed },
    });
    let h = util::digest_str(&format!("{}{}", v.fail.sig, v.case));
    let path = format!("{}/{}-{:016x}.json", dir, ctx.prop, h);
    std::fs::write(&path, serde_json::to_string_pretty(&body).unwrap()).expect("write replay");
    path
}

pub fn write_evidence(ctx: &Ctx, out: &Outcome, wall_s: f64) {
    let dir = format!("{}/evidence", ctx.verif_dir);
    let _ = std::fs::create_dir_all(&dir);
    let mut cov = serde_json::Map::new();
    cov.insert("evaluations".into(), json!(out.stats.evaluations));
    cov.insert("distinct_nontrivial".into(), json!(out.stats.nontrivial.len()));
    cov.insert("rule".into(), json!(out.rule));
    cov.insert("samples".into(), Value::Array(out.stats.samples.clone()));
    cov.insert("classes".into(), json!(out.stats.labels));
    cov.insert("excluded_known".into(), json!(out.stats.excluded_known));
    if out.exhaustive {
        cov.insert("exhaustive".into(), json!(true));
    }
    for (k, v) in &out.extra {
        cov.insert(k.clone(), v.clone());
    }
    let ev = json!({
        "property_id": ctx.prop,
        "tier": ctx.tier,
        "seed": ctx.seed,
        "level": "exploration",
        "coverage": Value::Object(cov),
        "assumptions": out.assumptions,
        "wall_s": wall_s,
        "violations": if out.violation.is_some() { 1 } else { 0 },
        "inconclusive": out.inconclusive,
    });
    std::fs::write(format!("{}/{}.json", dir, ctx.prop), serde_json::to_string_pretty(&ev).unwrap()).expect("write evidence");
}

/// Finish a check: evidence, replay file, KNOWN-FINDING / VIOLATION lines, exit code.
pub fn finish(ctx: &Ctx, out: Outcome, started: Instant) -> i32 {
    let wall = started.elapsed().as_secs_f64();
    write_evidence(ctx, &out, wall);
    for (p, sig, what) in ctx.known.for_prop(&ctx.prop) {
        let n = out.stats.excluded_known.get(sig).copied().unwrap_or(0);
        println!("KNOWN-FINDING: property={} {} [{}; {} occurrences excluded in this run]", p, what, sig, n);
    }
    println!(
        "{} {}: evaluations={} distinct_nontrivial={} wall={:.1}s",
        ctx.prop,
        ctx.tier,
        out.stats.evaluations,
        out.stats.nontrivial.len(),
        wall
    );
    if let Some(v) = &out.violation {
        let path = write_replay(ctx, v);
        println!("  signature: {}", v.fail.sig);
        println!("  message:   {}", v.fail.msg);
        println!("  case:      {}", v.case);
        println!("VIOLATION property={} replay={}", ctx.prop, path);
        return 1;
    }
    if let Some(why) = &out.inconclusive {
        println!("INCONCLUSIVE property={} {}", ctx.prop, why);
        return 2;
    }
    if out.stats.nontrivial.len() < 2 {
        println!("INCONCLUSIVE property={} fewer than 2 distinct non-trivial cases were explored", ctx.prop);
        return 2;
    }
    0
}
