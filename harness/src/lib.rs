pub mod analysis;
pub mod case;
pub mod props;
pub mod pyoracle;
pub mod refpvm;
pub mod replay;
pub mod runner;
pub mod util;
