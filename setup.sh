#!/usr/bin/env bash
# One-time offline setup: build the harness and validate the reference opcode table against CPython.
set -eu
export CARGO_NET_OFFLINE=true
cd "$(dirname "${BASH_SOURCE[0]}")"
mkdir -p work evidence replays
(cd harness && cargo build --release --offline)
./target/harness/release/pfverif optable > work/optable.rs.txt
python3 py/dump_optable.py > work/optable.py.txt
if ! diff -u work/optable.py.txt work/optable.rs.txt; then
  echo "setup: refpvm opcode table differs from CPython pickletools" >&2
  exit 1
fi
# refpvm (lexer + machine) vs CPython pickletools on generator outputs, corrupted outputs and random
# opcode streams: any disagreement is a harness defect and must surface here, not as a false alarm
./target/harness/release/pfverif selftest 9000
echo "setup: ok (refpvm opcode table == pickletools.opcodes of $(python3 -V 2>&1))"
