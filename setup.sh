#!/usr/bin/env bash
# One-time offline setup: build the harness and validate the reference opcode table against CPython.
set -eu
export CARGO_NET_OFFLINE=true
cd "$(dirname "${BASH_SOURCE[0]}")"
mkdir -p work evidence replays
(cd harness && cargo build --release --offline)
./target/harness/release/pfverif optable > work/optable.rs.txt
python3 py/dump_optable.py > work/optable.py.txt
if ! diff -u work/optable.py.txt work/optable.rs.txt; then
  echo "setup: refpvm opcode table differs from CPython pickletools" >&2
  exit 1
fi
echo "setup: ok (refpvm opcode table == pickletools.opcodes of $(python3 -V 2>&1))"
