#!/usr/bin/env python3
"""Dump CPython's pickletools opcode table in the format of `pfverif optable`.

Columns: code(hex) name proto argument-reader pops to_mark pushes, where for opcodes whose
stack_before contains the markobject `pops` is the number of fixed operands *below* the mark
(pickletools.dis: numtopop = before.index(markobject)).
"""
import pickletools

for o in pickletools.opcodes:
    before = [s.name for s in o.stack_before]
    after = [s.name for s in o.stack_after]
    to_mark = 1 if "mark" in before else 0
    pops = before.index("mark") if to_mark else len(before)
    print("%02x %s %d %s %d %d %d" % (ord(o.code), o.name, o.proto, o.arg.name if o.arg else "None", pops, to_mark, len(after)))
