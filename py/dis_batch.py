#!/usr/bin/env python3
"""Literal oracle: run CPython's pickletools over a batch of pickles.

Input file: one pickle per line as hex. Output: one line per pickle,
    <genops verdict> <dis verdict>
where a verdict is `ok` or `<ExceptionType>:<message with spaces replaced>`.
genops = the bytes decode up to the first STOP (pickletools.genops);
dis    = pickletools.dis accepts the stream (symbolic stack / memo check).
"""
import io
import pickletools
import sys


def verdict(fn):
    try:
        fn()
        return "ok"
    except Exception as e:  # noqa: BLE001 - every exception is a rejection
        return "%s:%s" % (type(e).__name__, str(e).replace(" ", "_").replace("\n", "_")[:120])


def main():
    path = sys.argv[1]
    out = []
    with open(path) as f:
        for line in f:
            line = line.strip()
            data = bytes.fromhex(line)

            def g():
                for _ in pickletools.genops(data):
                    pass

            def d():
                pickletools.dis(data, out=io.StringIO())

            out.append("%s %s" % (verdict(g), verdict(d)))
    sys.stdout.write("\n".join(out) + "\n")


if __name__ == "__main__":
    main()
