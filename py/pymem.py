#!/usr/bin/env python3
"""Memory behaviour of the Python front end in a long-running process (C14).

usage: pymem.py <package-parent-dir> <protocol> <seed> <calls>
Prints one JSON object:
  calls, bytes_returned          - work done in the measured phase
  py_growth                      - growth of Python-level allocations (tracemalloc) over the measured phase
  rss_growth                     - growth of the resident set (/proc/self/statm) over the measured phase
  dropped_alive, dropped_total   - PickleMutator instances that were used once, dropped and are still alive
"""
import gc
import hashlib
import json
import sys
import tracemalloc
import weakref


def rss():
    with open("/proc/self/statm") as f:
        return int(f.read().split()[1]) * 4096


def data_for(i, seed):
    # distinct, deterministic fuzzer inputs of 32..223 bytes
    h = hashlib.sha256(f"{seed}:{i}".encode()).digest()
    return (h * 7)[: 32 + h[0] % 192]


def main():
    sys.path.insert(0, sys.argv[1])
    protocol, seed, calls = int(sys.argv[2]), int(sys.argv[3]), int(sys.argv[4])
    import pickle_fuzzer  # noqa: E402
    from pickle_fuzzer.fuzzer import PickleMutator  # noqa: E402

    m = PickleMutator(protocol=protocol, seed=seed)
    g = pickle_fuzzer.Generator(protocol=protocol, seed=seed)
    for i in range(500):  # warm-up: lazily built tables, interned strings, allocator pools
        m.mutate(data_for(-i - 1, seed), 4096)
        g.generate_from_bytes(data_for(-i - 1, seed))
    gc.collect()
    tracemalloc.start()
    base_py = tracemalloc.get_traced_memory()[0]
    base_rss = rss()
    total = 0
    errors = 0
    for i in range(calls):
        d = data_for(i, seed)
        # every fifth input arrives in a bytearray (what a fuzzing engine may hand over): the mutator has to cope
        try:
            total += len(m.mutate(bytearray(d) if i % 5 == 4 else d, 4096))
        except Exception:  # noqa: BLE001 - a raising mutate() is C13's business; memory is measured regardless
            errors += 1
        if i % 4 == 0:
            total += len(bytes(g.generate_from_bytes(d)))
    gc.collect()
    py_growth = tracemalloc.get_traced_memory()[0] - base_py
    rss_growth = rss() - base_rss
    tracemalloc.stop()

    refs = []
    for i in range(200):
        x = PickleMutator(protocol=protocol, seed=seed + i)
        x.mutate(data_for(i, seed), 1024)
        refs.append(weakref.ref(x))
        del x
    gc.collect()
    alive = sum(1 for r in refs if r() is not None)
    json.dump({"calls": calls, "bytes_returned": total, "py_growth": py_growth, "rss_growth": rss_growth, "dropped_alive": alive, "dropped_total": len(refs), "mutate_raised": errors}, sys.stdout)


if __name__ == "__main__":
    main()
