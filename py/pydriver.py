#!/usr/bin/env python3
"""Drive the built Python bindings (pickle_fuzzer._native + pickle_fuzzer.fuzzer) through
generated call sequences and print what every call returned.

usage: pydriver.py <package-parent-dir> <sequences.json>
sequences.json: [{"cls": "Generator"|"PickleMutator", "protocol": int, "seed": int|null,
                  "ops": [["set_range", min, max] | ["generate"] | ["from_bytes", hex] | ["reset"] | ["mutate", hex, max_size]]}]
output (stdout, JSON): [[result, ...], ...] with result = hex string, "-" for calls returning nothing,
or "ERR:<ExceptionType>" when the call raised.
"""
import json
import sys


def main():
    sys.path.insert(0, sys.argv[1])
    import pickle_fuzzer  # noqa: E402
    from pickle_fuzzer.fuzzer import PickleMutator  # noqa: E402

    seqs = json.load(open(sys.argv[2]))
    out = []
    for s in seqs:
        res = []
        if s["cls"] == "SeedProbe":
            # the same (possibly unusual) seed argument twice: either it is refused, or the two generators agree
            outs = []
            for _ in range(2):
                try:
                    seed = eval(s["seed_expr"], {}, {})
                    g = (PickleMutator(protocol=s["protocol"], seed=seed).generator if s.get("mutator") else pickle_fuzzer.Generator(protocol=s["protocol"], seed=seed))
                    outs.append(bytes(g.generate()).hex())
                except Exception as e:  # noqa: BLE001
                    outs.append("ERR:" + type(e).__name__)
            out.append(outs)
            continue
        try:
            if s["cls"] == "Generator":
                obj = pickle_fuzzer.Generator(protocol=s["protocol"], seed=s["seed"]) if s["seed"] is not None else pickle_fuzzer.Generator(protocol=s["protocol"])
            else:
                obj = PickleMutator(protocol=s["protocol"], seed=s["seed"]) if s["seed"] is not None else PickleMutator(protocol=s["protocol"])
        except Exception as e:  # noqa: BLE001
            out.append(["ERR:ctor:" + type(e).__name__])
            continue
        for op in s["ops"]:
            try:
                if op[0] == "set_range":
                    target = obj if s["cls"] == "Generator" else obj.generator
                    target.set_opcode_range(op[1], op[2])
                    res.append("-")
                elif op[0] == "generate":
                    target = obj if s["cls"] == "Generator" else obj.generator
                    res.append(bytes(target.generate()).hex())
                elif op[0] == "from_bytes":
                    target = obj if s["cls"] == "Generator" else obj.generator
                    res.append(bytes(target.generate_from_bytes(bytes.fromhex(op[1]))).hex())
                elif op[0] == "from_view":
                    target = obj if s["cls"] == "Generator" else obj.generator
                    raw = bytes.fromhex(op[2])
                    if op[1] == 1:
                        carrier = bytearray(raw)
                    elif op[1] == 2:
                        carrier = memoryview(raw)
                    elif op[1] == 3:
                        buf = bytearray(2 * len(raw))
                        buf[0::2] = raw
                        buf[1::2] = bytes((0xA5 ^ (i & 0xFF)) for i in range(len(raw)))
                        carrier = memoryview(buf)[::2]
                    else:
                        import array
                        carrier = array.array("B", raw)
                    res.append(bytes(target.generate_from_bytes(carrier)).hex())
                elif op[0] == "reset":
                    obj.reset()
                    res.append("-")
                elif op[0] == "mutate":
                    res.append(bytes(obj.mutate(bytes.fromhex(op[1]), op[2])).hex())
                else:
                    res.append("ERR:unknown-op")
            except Exception as e:  # noqa: BLE001
                res.append("ERR:" + type(e).__name__)
        out.append(res)
    json.dump(out, sys.stdout)


if __name__ == "__main__":
    main()
